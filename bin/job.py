#!/usr/bin/env python
"""bin/job.py <module> <fn> '<cfg-json>' [timeout] -- run one harness job under CrossHair and print the result (dev aid)."""
import sys, os, json
sys.path.insert(0, os.path.dirname(os.path.dirname(os.path.abspath(__file__))))
from vlib import xdriver
mod, fn, cfg = sys.argv[1], sys.argv[2], json.loads(sys.argv[3])
to = int(sys.argv[4]) if len(sys.argv) > 4 else 60
jobs = [dict(family='dbg', module=mod, fn=fn, cfg=cfg, timeout=to)]
res = xdriver.run_jobs(jobs)
for i in sorted(res):
    r = res[i]
    print(r['verdict'], 'wall', r['wall'], 'paths', r.get('paths'), 'checks', r.get('solver', {}).get('checks'), r.get('cex_args'))
    if r['verdict'] != 'CONFIRMED':
        for m in r.get('messages') or []:
            print(m[0], m[1][:3000])
