#!/bin/bash
# Build the overlay interpreter /verif/.venv offline (idempotent, under a file lock).
# /venv (python 3.12, chameleon editable -> /repo/src) + crosshair-tool + z3-solver from the wheelhouse.
set -e
cd "$(dirname "$0")/.."
export PIP_NO_INDEX=1
exec 9>/verif/.venv.lock
flock 9
if [ -x .venv/bin/python ] && .venv/bin/python -c 'import crosshair, z3, chameleon' 2>/dev/null; then
  exit 0
fi
rm -rf .venv
/venv/bin/python -m venv .venv
SP=$(.venv/bin/python -c 'import sysconfig;print(sysconfig.get_paths()["purelib"])')
echo "import site; site.addsitedir('/venv/lib/python3.12/site-packages')" > "$SP/base.pth"
.venv/bin/pip install -q --no-index --find-links /opt/veriftools/wheels crosshair-tool >/dev/null
.venv/bin/python -c 'import crosshair, z3, chameleon; print("overlay ok", z3.get_version_string())'
