#!/usr/bin/env python3
"""Regenerate MANIFEST.json from vlib/manifest_data.py (claims) -- keeps it schema-valid."""
import json, os, sys
HERE = os.path.dirname(os.path.dirname(os.path.abspath(__file__)))
sys.path.insert(0, HERE)
from vlib.manifest_data import CLAIMS, NOT_APPLICABLE, NOTES
ALL = ['C%02d' % i for i in range(1, 21)]
checks = []
for pid in ALL:
    c = CLAIMS.get(pid)
    if not c:
        continue
    checks.append({
        'property_id': pid,
        'quick_cmd': 'bin/check %s quick' % pid,
        'thorough_cmd': 'bin/check %s thorough' % pid,
        'evidence_file': 'evidence/%s.json' % pid,
        'replay_cmd_template': 'bin/check --replay {path}',
        'engine': c['engine'],
        'level_claimed': {'category': c['level'], 'text': c['text'], 'design_ref': c['design_ref']},
        'level_note': c['note'],
        'technique': c['technique'],
    })
na = [{'property_id': p, 'reason': NOT_APPLICABLE.get(p, 'check under construction in this session; not claimed yet')}
      for p in ALL if p not in CLAIMS]
m = {
    'version': 1,
    'setup_cmd': 'bin/setup.sh',
    'hooks': {
        'guard': 'MALTHE_CHAMELEON_VERIF',
        'enable': 'none needed: interleaving/crash points are inserted by AST instrumentation of the real functions at check time; no hook commits in /repo',
        'baseline_off_cmd': 'cd /repo && /venv/bin/python -m pytest -ra -q -p no:cacheprovider --timeout=900 --continue-on-collection-errors',
        'source_commits': [],
        'add_only': True,
    },
    'engines': [
        {'name': 'X', 'path': 'vlib/xdriver.py', 'serves_properties': sorted(CLAIMS), 'kind_free_text': 'CrossHair (z3) symbolic execution of the real Python functions with the chsym plugin'},
        {'name': 'Z', 'path': 'vlib/relang.py', 'serves_properties': [p for p in ('C03', 'C17') if p in CLAIMS], 'kind_free_text': 'z3 regular-language queries built from the live re patterns'},
        {'name': 'S', 'path': 'vlib/stepper.py', 'serves_properties': [p for p in ('C14', 'C15', 'C16') if p in CLAIMS], 'kind_free_text': 'yield-instrumentation of real functions; symbolic schedules/crash points under CrossHair'},
    ],
    'checks': checks,
    'notes': NOTES,
    'not_applicable': na,
}
json.dump(m, open(os.path.join(HERE, 'MANIFEST.json'), 'w'), indent=1)
print('MANIFEST.json: %d checks, %d not_applicable' % (len(checks), len(na)))
