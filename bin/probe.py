#!/usr/bin/env python
"""bin/probe.py <ID> <label-substring> [timeout] [tier] -- run matching jobs of a plan and print timings (dev aid)."""
import sys, time, importlib, os
sys.path.insert(0, os.path.dirname(os.path.dirname(os.path.abspath(__file__))))
from vlib import xdriver
pid, pat = sys.argv[1], sys.argv[2]
to = int(sys.argv[3]) if len(sys.argv) > 3 else 60
tier = sys.argv[4] if len(sys.argv) > 4 else 'quick'
plan = importlib.import_module('checks.'+pid).plan(tier, 0)
jobs=[]
for fam in plan['families']:
    for cfg in fam['jobs']:
        if pat in str(cfg.get('label', cfg.get('shape', ''))):
            jobs.append(dict(family=fam['name'], module=fam['module'], fn=fam['fn'], cfg=cfg, timeout=to))
print(len(jobs),'jobs')
res = xdriver.run_jobs(jobs)
for i in sorted(res):
    r = res[i]
    print(r['cfg'].get('label', r['cfg'].get('shape')), r['verdict'], r['wall'], r.get('paths'), r.get('solver',{}).get('checks'), r.get('cex_args'), (str(r.get('messages'))[:400] if r['verdict'] not in ('CONFIRMED',) else ''))
