"""``with NoTracing():`` -- run concrete bookkeeping (or a C-boundary step such as compile()) outside the
CrossHair tracer; a no-op when the harness is replayed natively (CrossHair not imported / not tracing)."""
import sys


class NoTracing:
    def __enter__(self):
        self.cm = None
        if 'crosshair.tracers' in sys.modules:
            from crosshair.tracers import NoTracing as NT, is_tracing
            if is_tracing():
                self.cm = NT()
                self.cm.__enter__()

    def __exit__(self, *a):
        if self.cm is not None:
            self.cm.__exit__(*a)
        return False
