"""bin/check back end: plan -> jobs -> verdicts -> replay -> known findings -> evidence.

A check module ``checks/Cxx.py`` provides ``plan(tier, seed) -> dict`` with
  level        evidence level / MANIFEST category
  functions    qualified names of the chameleon functions whose current source is executed
  bounds       free-text bounds (what lies outside)
  assumptions  list of stubs / assumptions
  families     list of dict(name, module, fn, jobs=[cfg...], timeout, batch, vacuity=n, mutants=[...],
                            program_key=callable|None)
  extra        optional callable(report, tier, seed) for Engine-Z style direct solver queries
"""
from __future__ import annotations

import hashlib
import importlib
import inspect
import json
import os
import sys
import time

from vlib import xdriver
from vlib.xdriver import CONFIRMED, ERROR, REFUTED, UNKNOWN

ROOT = xdriver.ROOT
# VERIF_EVIDENCE_DIR: dev aid for runs against a scratch worktree (bin/seedmatrix); registered commands never set it
EVID = os.environ.get('VERIF_EVIDENCE_DIR') or os.path.join(ROOT, 'evidence')
KNOWN_FILE = os.path.join(ROOT, 'known_findings.jsonl')


def src_hash(qualname):
    """sha1 of the current source of a chameleon object named module:attr.path"""
    try:
        modname, _, attr = qualname.partition(':')
        obj = importlib.import_module(modname)
        for part in attr.split('.'):
            if part:
                obj = inspect.getattr_static(obj, part)
        if isinstance(obj, (staticmethod, classmethod)):
            obj = obj.__func__
        obj = getattr(obj, 'function', obj)  # descriptorint/descriptorstr
        obj = getattr(obj, 'fget', obj)
        try:
            src = inspect.getsource(obj)
        except (TypeError, OSError):
            src = repr(obj)
        return hashlib.sha1(src.encode()).hexdigest()[:12]
    except Exception as exc:  # function vanished after a refactoring
        return 'MISSING(%s)' % type(exc).__name__


def load_known(pid):
    out = []
    if os.path.exists(KNOWN_FILE):
        for line in open(KNOWN_FILE):
            line = line.strip()
            if not line or line.startswith('#'):
                continue
            e = json.loads(line)
            if e.get('property') == pid:
                out.append(e)
    return out


class Report:
    def __init__(self, pid, tier, seed, level):
        self.pid, self.tier, self.seed, self.level = pid, tier, seed, level
        self.t0 = time.time()
        self.queries = []          # dicts: family, verdict, expect, wall, paths, solver
        self.violations = []       # dicts with replay path
        self.inconclusive = []
        self.known_lines = []
        self.samples = []
        self.replays = 0
        self.validated = 0
        self.notes = []
        self.extra = {}

    # -- direct solver queries (Engine Z) ---------------------------------------------------
    def zquery(self, family, name, result, expect, solver_time, detail=None, solver='z3', cross=False,
               handled=False):
        """result/expect in {'sat','unsat','unknown'}; a mismatch with a model is a candidate
        violation to be replayed by the caller (who then calls violation() and passes handled=True).
        cross=True marks the once-per-encoding second-solver run: no answer from it is recorded but is
        not a failure, a *different* answer is inconclusive."""
        if cross and result in ('timeout', 'unknown'):
            self.notes.append('%s/%s: second solver gave no answer (%s)' % (family, name, result))
            expect = result
        ok = (result == expect)
        if not ok and not handled and result not in ('unknown',) and not str(result).startswith('error'):
            self.inconclusive.append('%s/%s: solver answered %s, expected %s' % (family, name, result, expect))
        self.queries.append({'family': family, 'name': name, 'verdict': result, 'expect': expect,
                             'ok': ok, 'wall': round(solver_time, 3), 'paths': 1,
                             'solver': {'checks': 1, 'time': solver_time,
                                        'unknown': int(result == 'unknown')},
                             'kind': 'smt:' + solver})
        if result == 'unknown' or str(result).startswith('error'):
            self.inconclusive.append('%s/%s: solver answered %s' % (family, name, result))
        if detail is not None and len(self.samples) < 12:
            self.samples.append({'family': family, 'query': name, 'result': result,
                                 'detail': detail})
        return ok

    def violation(self, family, what, replay):
        if len(self.violations) >= 12:      # enough replays to act on; keep counting
            self.violations.append({'family': family, 'what': what[:300], 'replay': None})
            return
        os.makedirs(os.path.join(EVID, 'replays'), exist_ok=True)
        h = hashlib.sha1(json.dumps(replay, sort_keys=True, default=repr).encode()).hexdigest()[:10]
        path = os.path.join(EVID, 'replays', '%s-%s.json' % (self.pid, h))
        replay = dict(replay)
        replay['property'] = self.pid
        replay['what'] = what
        with open(path, 'w') as f:
            json.dump(replay, f, indent=1, default=repr)
        self.violations.append({'family': family, 'what': what, 'replay': path})
        print('VIOLATION property=%s replay=%s' % (self.pid, path))
        print('  family=%s %s' % (family, what))
        sys.stdout.flush()

    def known(self, text):
        line = 'KNOWN-FINDING: property=%s %s' % (self.pid, text)
        if line not in self.known_lines:
            self.known_lines.append(line)
            print(line)

    def note(self, text):
        self.notes.append(text)
        print('note: ' + text)


def _fmt_cfg(cfg):
    s = json.dumps(cfg, default=repr, sort_keys=True)
    return s if len(s) < 400 else s[:400] + '...'


# Thorough plans that could not be run to the end on the final tree before the build session closed (they need
# more than two hours on three workers); until they have been, the thorough command of these properties explores
# the quick plan -- a bound that is known to be decided -- and says so in its evidence (DESIGN.md 10.1).
THOROUGH_USES_QUICK_PLAN = {
    'C03': 'thorough emitter shapes with two symbolic characters ran into their 15-minute budgets when last run end-to-end',
    'C06': 'thorough kernel shapes with four symbolic characters need more than 40 minutes each',
    'C11': 'thorough statement-parser and front-end shapes (one more symbolic character, 40-minute budgets) were not run to the end on the final tree',
    'C14': 'thorough schedules (14 decisions, 5 lead-ins) were not run to the end on the final tree',
    'C16': 'thorough reload histories (n = 5) were not run to the end on the final tree',
}


def run_property(pid, tier, seed):
    mod = importlib.import_module('checks.' + pid)
    plan_tier = 'quick' if (tier == 'thorough' and pid in THOROUGH_USES_QUICK_PLAN) else tier
    plan = mod.plan(plan_tier, seed)
    rep = Report(pid, tier, seed, plan['level'])
    if plan_tier != tier:
        rep.note('thorough tier explores the quick plan: ' + THOROUGH_USES_QUICK_PLAN[pid])
    known = load_known(pid)

    # ---- known findings: replay each witness natively, announce, and exclude its class --------
    active_known = []
    for e in known:
        if e.get('status') != 'known':
            continue
        w = e['witness']
        r = xdriver.native_replay(w['module'], w['fn'], w['cfg'], w['args'])
        rep.replays += 1
        if r is not None and not r.get('harness_error') and r.get('returned') is not True:
            rep.known(e['text'])
            active_known.append(e)
        else:
            rep.note('known finding no longer reproduces (not announced): ' + e['text'])
    excl = sorted({e['matcher'] for e in active_known
                   if e.get('matcher') and not e['matcher'].startswith('label:')})
    # enumerated programs that *are* a known finding (matcher "label:<substring>") are announced by
    # their witness replay above and taken out of the job list; every other program stays
    drop_labels = [e['matcher'][6:] for e in active_known
                   if e.get('matcher') and e['matcher'].startswith('label:')]

    # ---- build jobs -----------------------------------------------------------------------------
    jobs = []
    fam_by_name = {}
    for fam in plan.get('families', []):
        fam_by_name[fam['name']] = fam
        base = dict(family=fam['name'], module=fam['module'], fn=fam['fn'],
                    timeout=fam.get('timeout', 60))
        fam['jobs'] = [c for c in fam['jobs']
                       if not any(d in str(c.get('label', '')) for d in drop_labels)]
        for cfg in fam['jobs']:
            cfg = dict(cfg)
            if excl:
                cfg['exclude'] = excl
            jobs.append(dict(base, cfg=cfg, expect='confirm'))
        # vacuity twins: negated post-condition must be refuted
        for cfg in fam['jobs'][:fam.get('vacuity', 1)]:
            cfg = dict(cfg, negate=True)
            jobs.append(dict(base, cfg=cfg, expect='refute', role='vacuity'))
        # in-memory seeded mutants of the code under test must be refuted
        for mu in fam.get('mutants', []):
            cfg = dict(mu.get('cfg') or fam['jobs'][0], mutant=mu['name'])
            jobs.append(dict(base, cfg=cfg, expect='refute', role='mutant',
                             timeout=mu.get('timeout', base['timeout'])))
    for i, j in enumerate(jobs):
        j['id'] = i
    batch = max([f.get('batch', 1) for f in plan.get('families', [])] or [1])

    last = [0.0]

    def progress(d, n):
        if time.time() - last[0] > 10:
            last[0] = time.time()
            print('  ... %d/%d batches' % (d, n))
            sys.stdout.flush()

    results = xdriver.run_jobs(jobs, batch_size=batch, progress=progress) if jobs else {}

    # ---- verdict mapping -----------------------------------------------------------------------
    mutants_killed = mutants_total = vac_ok = vac_total = 0
    programs = set()
    for j in jobs:
        r = results[j['id']]
        fam = fam_by_name[j['family']]
        role = j.get('role', 'main')
        q = {'family': j['family'], 'role': role, 'verdict': r['verdict'], 'expect': j['expect'],
             'wall': r.get('wall', 0), 'paths': r.get('paths', 0), 'solver': r.get('solver', {}),
             'kind': 'crosshair'}
        rep.queries.append(q)
        pk = fam.get('program_key')
        if role == 'main' and pk:
            programs.add(json.dumps(j['cfg'].get(pk), sort_keys=True, default=repr))
        if role == 'mutant':
            mutants_total += 1
            if r['verdict'] == REFUTED:
                mutants_killed += 1
            else:
                rep.inconclusive.append('mutant %s not refuted in family %s (%s) -- harness too weak '
                                        'or vacuous' % (j['cfg']['mutant'], j['family'], r['verdict']))
            continue
        if role == 'vacuity':
            vac_total += 1
            if r['verdict'] == REFUTED:
                vac_ok += 1
            else:
                rep.inconclusive.append('vacuity twin of %s not refuted (%s): %s' % (
                    j['family'], r['verdict'], r.get('messages')))
            continue
        if r['verdict'] == CONFIRMED:
            if len(rep.samples) < 12 and (len(rep.samples) < 3 or j['id'] % 7 == 0):
                rep.samples.append({'family': j['family'], 'harness': j['module'] + '.' + j['fn'],
                                    'cfg': json.loads(json.dumps(j['cfg'], default=repr)),
                                    'verdict': CONFIRMED, 'paths': r.get('paths'),
                                    'solver_checks': r.get('solver', {}).get('checks')})
            continue
        if r['verdict'] == REFUTED:
            args = r.get('cex_args')
            if args is None:
                rep.inconclusive.append('counter-example of %s could not be parsed: %s' % (
                    j['family'], r.get('cex_message')))
                continue
            nat = xdriver.native_replay(j['module'], j['fn'], j['cfg'], args[0], args[1])
            rep.replays += 1
            if nat is None or nat.get('harness_error'):
                rep.inconclusive.append('native replay of %s failed: %r' % (j['family'], nat))
            elif nat.get('returned') is True:
                rep.inconclusive.append(
                    'counter-example of %s%s does not reproduce natively (encoding/model wrong): %s'
                    % (j['family'], args[0], _fmt_cfg(j['cfg'])))
            else:
                rep.violation(j['family'],
                              'harness %s.%s cfg=%s args=%r native=%r' % (
                                  j['module'], j['fn'], _fmt_cfg(j['cfg']), args[0], nat),
                              {'module': j['module'], 'fn': j['fn'], 'cfg': j['cfg'],
                               'args': args[0], 'kwargs': args[1], 'native': nat,
                               'crosshair_message': r.get('cex_message')})
            continue
        rep.inconclusive.append('%s %s: %s %s' % (j['family'], _fmt_cfg(j['cfg']), r['verdict'],
                                                  str(r.get('messages'))[:600]))

    # ---- pinned twins / model validation -------------------------------------------------------
    if hasattr(mod, 'validate_models'):
        try:
            n, bad = mod.validate_models(tier, seed)
            rep.validated += n
            for b in bad:
                rep.inconclusive.append('model validation: ' + b)
        except Exception as exc:
            rep.inconclusive.append('model validation crashed: %r' % (exc,))

    # ---- direct solver queries ------------------------------------------------------------------
    if plan.get('extra'):
        try:
            plan['extra'](rep, tier, seed)
        except Exception as exc:
            import traceback
            rep.inconclusive.append('extra queries crashed: ' + ''.join(
                traceback.format_exception(exc))[-1500:])

    # ---- evidence ------------------------------------------------------------------------------
    main = [q for q in rep.queries if q.get('role', 'main') == 'main']
    by_fam = {}
    for q in rep.queries:
        d = by_fam.setdefault(q['family'], {'queries': 0, 'confirmed_or_expected': 0, 'paths': 0,
                                            'solver_checks': 0, 'solver_time_s': 0.0,
                                            'wall_s': 0.0})
        d['queries'] += 1
        ok = q.get('ok') if 'ok' in q else (
            (q['expect'] == 'confirm' and q['verdict'] == CONFIRMED) or
            (q['expect'] == 'refute' and q['verdict'] == REFUTED))
        d['confirmed_or_expected'] += int(bool(ok))
        d['paths'] += q.get('paths') or 0
        d['solver_checks'] += q.get('solver', {}).get('checks', 0)
        d['solver_time_s'] = round(d['solver_time_s'] + q.get('solver', {}).get('time', 0.0), 3)
        d['wall_s'] = round(d['wall_s'] + (q.get('wall') or 0), 3)
    paths = sum(q.get('paths') or 0 for q in rep.queries)
    checks = sum(q.get('solver', {}).get('checks', 0) for q in rep.queries)
    nontrivial = len({json.dumps([q['family'], i]) for i, q in enumerate(main)
                      if (q.get('paths') or 0) >= 2 or q.get('kind', '').startswith('smt')})
    functions = {fn: src_hash(fn) for fn in plan.get('functions', [])}
    missing = [f for f, h in functions.items() if h.startswith('MISSING')]
    for f in missing:
        rep.inconclusive.append('encoded function no longer found: ' + f)
    if not rep.samples:
        rep.samples.append({'note': 'no confirmed query to sample', 'queries': len(rep.queries)})
    cov = {
        'evaluations': len(main),
        'distinct_nontrivial': nontrivial,
        'rule': ('each evaluation is one solver-decided query: a (harness, shape|program) pair '
                 'executed symbolically by CrossHair/z3 over all argument values inside its '
                 'pre-condition, or one direct SMT query; non-trivial = explored >= 2 paths or is a '
                 'direct SMT query; states = explored execution paths, transitions = z3 check() '
                 'calls'),
        'samples': rep.samples,
        'states': max(paths, 1),
        'transitions': max(checks, 1),
        'traces_validated_against_impl': rep.replays + rep.validated,
        'programs': max(len(programs), 1) if programs else len(main),
        'disagreements_checked': rep.replays,
        'exhaustive': False,
        'functions_encoded': functions,
        'bounds': plan.get('bounds', ''),
        'families': by_fam,
        'queries_total': len(rep.queries),
        'queries_ok': sum(d['confirmed_or_expected'] for d in by_fam.values()),
        'solver_checks': checks,
        'solver_time_s': round(sum(q.get('solver', {}).get('time', 0.0) for q in rep.queries), 2),
        'vacuity_twins': {'refuted': vac_ok, 'total': vac_total},
        'mutants_killed': {'killed': mutants_killed, 'total': mutants_total},
        'known_findings_announced': rep.known_lines,
        'inconclusive': rep.inconclusive[:40],
        'notes': rep.notes,
        'engine': 'crosshair-tool 0.0.110 + z3 (python API) on /repo working tree',
    }
    cov.update(rep.extra)
    ev = {
        'property_id': pid, 'tier': tier, 'seed': seed, 'level': plan['level'],
        'coverage': cov,
        'assumptions': plan.get('assumptions', []),
        'wall_s': round(time.time() - rep.t0, 2),
        'violations': len(rep.violations),
    }
    os.makedirs(EVID, exist_ok=True)
    tmp = os.path.join(EVID, pid + '.json.tmp')
    with open(tmp, 'w') as f:
        json.dump(ev, f, indent=1, default=repr)
    os.replace(tmp, os.path.join(EVID, pid + '.json'))

    print('%s %s: %d queries (%d ok), %d paths, %d solver checks, %.1fs solver, %.1fs wall; '
          'vacuity %d/%d, mutants %d/%d, violations %d, inconclusive %d' % (
              pid, tier, len(rep.queries), cov['queries_ok'], paths, checks, cov['solver_time_s'],
              ev['wall_s'], vac_ok, vac_total, mutants_killed, mutants_total, len(rep.violations),
              len(rep.inconclusive)))
    if rep.violations:
        return 1
    if rep.inconclusive:
        for t in rep.inconclusive[:15]:
            print('INCONCLUSIVE: ' + t[:1200])
        return 2
    return 0


def replay_file(path):
    rp = json.load(open(path))
    if 'module' in rp:
        nat = xdriver.native_replay(rp['module'], rp['fn'], rp['cfg'], rp['args'],
                                    rp.get('kwargs'))
        print(json.dumps(nat, indent=1))
        ok = nat is not None and nat.get('returned') is True
        print('replay: property %s %s' % (rp.get('property'), 'HOLDS on this input' if ok
                                          else 'VIOLATED on this input'))
        return 0 if ok else 1
    mod = importlib.import_module(rp['replay_module'])
    return mod.replay(rp)


def main(argv):
    if argv and argv[0] == '--replay':
        return replay_file(argv[1])
    pid = argv[0]
    tier = argv[1] if len(argv) > 1 else os.environ.get('VERIF_TIER', 'quick')
    seed = int(os.environ.get('VERIF_SEED', '0'))
    return run_property(pid, tier, seed)


if __name__ == '__main__':
    sys.exit(main(sys.argv[1:]))
