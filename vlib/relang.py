"""Engine Z: translate live ``re`` pattern strings to z3 regular expressions (DESIGN.md 3.3).

Only *existence of a match* is reasoned about (independent of greedy/backtracking priority).
Categories ``\\s \\d \\w`` cover ASCII + Latin-1 exactly as CPython's str patterns do for code points
< 0x100; the Unicode tail is left to Engine X (stated in evidence).  Supported: literals, classes,
ranges, negation, categories, branches, repeats, groups, AT anchors (dropped; callers anchor by
construction), look-ahead via explicit ``continuation`` handling (see ``tr``):

  negative look-ahead ``(?!Y)`` followed by continuation ``Z`` in the same sequence becomes
  ``Z  ∩  ¬(Y Σ*)``; positive look-ahead ``(?=Y)`` becomes ``Z ∩ (Y Σ*)``.  If the look-ahead is the last
  item of its sequence the caller must pass ``tail`` (what may follow) -- otherwise NotImplementedError.
"""
from __future__ import annotations

import re
import time

import z3

try:
    import re._constants as sre_c
    import re._parser as sre_parse
except ImportError:  # pragma: no cover
    import sre_constants as sre_c
    import sre_parse

SS = z3.StringSort()
RS = z3.ReSort(SS)
ANY = z3.AllChar(RS)
ALL = z3.Full(RS)
EMPTY = z3.Re(z3.StringVal(""))
NONE = z3.Empty(RS)


def lit(c):
    return z3.Re(z3.StringVal(chr(c)))


def rng(a, b):
    return z3.Range(z3.StringVal(chr(a)), z3.StringVal(chr(b)))


def union(xs):
    xs = list(xs)
    if not xs:
        return NONE
    return xs[0] if len(xs) == 1 else z3.Union(*xs)


def concat(xs):
    xs = [x for x in xs]
    if not xs:
        return EMPTY
    return xs[0] if len(xs) == 1 else z3.Concat(*xs)


def neg_class(r):
    return z3.Intersect(ANY, z3.Complement(r))


# str-pattern categories for code points < 0x100 (CPython: str.isspace / isdigit / isalnum or '_')
_SPACE = [c for c in range(0x100) if chr(c).isspace()]
_DIGIT = [c for c in range(0x100) if chr(c).isdigit() and chr(c).isdecimal()]
_WORD = [c for c in range(0x100) if chr(c).isalnum() or chr(c) == '_']


def _runs(cs):
    out = []
    for c in cs:
        if out and out[-1][1] == c - 1:
            out[-1][1] = c
        else:
            out.append([c, c])
    return union([rng(a, b) if a != b else lit(a) for a, b in out])


def category(cat, ascii_only=False):
    n = str(cat)
    if 'SPACE' in n:
        cs = [c for c in _SPACE if c < 0x80] if ascii_only else _SPACE
    elif 'DIGIT' in n:
        cs = [c for c in _DIGIT if c < 0x80] if ascii_only else _DIGIT
    elif 'WORD' in n:
        cs = [c for c in _WORD if c < 0x80] if ascii_only else _WORD
    else:
        raise NotImplementedError(n)
    r = _runs(cs)
    if 'NOT' in n:
        r = neg_class(r)
    return r


class Tr:
    def __init__(self, flags=0, bytes_mode=False, approx=None):
        # approx: what to do with a look-ahead that has no known continuation:
        #   'under' -> the enclosing sequence matches nothing (language under-approximated)
        #   'over'  -> the look-ahead is ignored (language over-approximated)
        self.approx = approx
        self.approximated = 0
        self.icase = bool(flags & re.IGNORECASE)
        self.dotall = bool(flags & re.DOTALL)
        self.ascii = bool(flags & re.ASCII) or bytes_mode

    def ch(self, c):
        if self.icase:
            s = chr(c)
            alts = {s.lower(), s.upper()}
            alts = [a for a in alts if len(a) == 1]
            return union([lit(ord(a)) for a in sorted(alts)])
        return lit(c)

    def cls(self, items):
        neg = False
        parts = []
        for op, av in items:
            if op is sre_c.NEGATE:
                neg = True
            elif op is sre_c.LITERAL:
                parts.append(self.ch(av))
            elif op is sre_c.RANGE:
                a, b = av
                if self.icase:
                    parts.append(union([rng(a, b)] + [self.ch(c) for c in range(a, min(b, 0x7f) + 1)
                                                      if chr(c).isalpha()]))
                else:
                    parts.append(rng(a, b))
            elif op is sre_c.CATEGORY:
                parts.append(category(av, self.ascii))
            else:
                raise NotImplementedError(op)
        r = union(parts)
        return neg_class(r) if neg else r

    def seq(self, items, tail=None):
        """items: list of (op, av).  Returns z3 regex for the sequence, handling look-aheads with
        the remainder of the sequence (and ``tail``) as continuation."""
        items = list(items)
        for i, (op, av) in enumerate(items):
            if op in (sre_c.ASSERT, sre_c.ASSERT_NOT):
                direction, sub = av
                if direction != 1:
                    raise NotImplementedError('look-behind')
                rest = self.seq(items[i + 1:], tail)
                if tail is not None:
                    cont = z3.Concat(rest, tail)
                else:
                    cont = rest
                y = z3.Concat(self.seq(sub), ALL)
                if tail is None and i + 1 == len(items):
                    self.approximated += 1
                    if self.approx == 'under':
                        return NONE
                    if self.approx == 'over':
                        return concat([self.one(o, a) for o, a in items[:i]])
                    raise NotImplementedError('look-ahead at end of sequence without tail')
                if op is sre_c.ASSERT_NOT:
                    guarded = z3.Intersect(cont, z3.Complement(y))
                else:
                    guarded = z3.Intersect(cont, y)
                # note: with a tail, the returned regex *includes* the tail
                return concat([self.one(o, a) for o, a in items[:i]] + [guarded])
        out = [self.one(o, a) for o, a in items]
        return concat(out)

    def one(self, op, av):
        if op is sre_c.LITERAL:
            return self.ch(av)
        if op is sre_c.NOT_LITERAL:
            return neg_class(self.ch(av))
        if op is sre_c.ANY:
            return ANY if self.dotall else neg_class(lit(10))
        if op is sre_c.IN:
            return self.cls(av)
        if op is sre_c.BRANCH:
            return union([self.seq(b) for b in av[1]])
        if op is sre_c.SUBPATTERN:
            return self.seq(av[3])
        if op in (sre_c.MAX_REPEAT, sre_c.MIN_REPEAT):
            lo, hi, sub = av
            r = self.seq(sub)
            if hi == sre_c.MAXREPEAT:
                if lo == 0:
                    return z3.Star(r)
                if lo == 1:
                    return z3.Plus(r)
                return z3.Concat(*([r] * lo + [z3.Star(r)]))
            if lo == 0 and hi == 1:
                return z3.Option(r)
            return z3.Loop(r, lo, hi)
        if op is sre_c.AT:
            return EMPTY
        raise NotImplementedError(op)


def translate(pattern, flags=0, tail=None, approx=None):
    """pattern: str (or bytes, decoded latin-1) -> z3 regex for the language of full matches."""
    bytes_mode = isinstance(pattern, bytes)
    if bytes_mode:
        pattern = pattern.decode('latin-1')
    parsed = sre_parse.parse(pattern, flags)
    flags = parsed.state.flags | flags
    return Tr(flags, bytes_mode, approx).seq(list(parsed), tail)


def check(constraints, timeout_ms=60000):
    """Returns (result_str, model_or_None, seconds)."""
    s = z3.Solver()
    s.set('timeout', timeout_ms)
    for c in constraints:
        s.add(c)
    t = time.perf_counter()
    r = s.check()
    dt = time.perf_counter() - t
    rs = str(r)
    return rs, (s.model() if rs == 'sat' else None), dt


def model_str(model, var):
    v = model.eval(var, model_completion=True)
    return v.as_string() if hasattr(v, 'as_string') else str(v)


def z3_unescape(s):
    """z3 prints non-printable characters as \\u{XX}; turn back into Python str."""
    return re.sub(r'\\u\{([0-9a-fA-F]+)\}', lambda m: chr(int(m.group(1), 16)), s)


def smtlib_check_with_binary(constraints, binary='/usr/bin/z3', timeout_s=60):
    """Cross-check an encoding with the z3 4.8.12 binary (diff two solvers once per encoding)."""
    import subprocess
    s = z3.Solver()
    for c in constraints:
        s.add(c)
    text = s.to_smt2()
    try:
        p = subprocess.run([binary, '-in', '-T:%d' % timeout_s], input=text, capture_output=True,
                           text=True, timeout=timeout_s + 10)
    except subprocess.TimeoutExpired:
        return 'unknown'
    out = p.stdout.strip().splitlines()
    if any('(error' in l for l in out):
        return 'error:' + ' '.join(out)[:200]
    return out[0] if out else 'unknown'
