"""Abstract template programs (TProg): JSON-serialisable element trees with TAL statements whose
expressions come from a small probe language, their serialisation to template text, and helpers
shared by the generators (DESIGN.md 3.2).

Element  := {'tag', 'static': [[name, value], ...], 'indent': int|None, 'children': [Element|str],
             optional statements:
             'define': [[scope, name, Expr], ...], 'condition': Expr, 'repeat': [name, Expr],
             'switch': Expr, 'case': Expr, 'content': [mode, Expr], 'replace': [mode, Expr],
             'omit': '' | Expr, 'attributes': [[name, Expr], ...], 'onerror': [mode, Expr],
             'order': [statement names in the order they are written in the start tag]}
Expr     := {'py': source} | {'pipe': [Expr...]} | {'not': Expr} | {'exists': Expr}
          | {'string': [str|Expr...]} | {'structure': Expr}
Text child := str (may contain '${...}' only through {'interp': Expr} children)
Child    := Element | str | {'interp': Expr}
"""
from __future__ import annotations

STATEMENTS = ('define', 'condition', 'repeat', 'switch', 'case', 'content', 'replace', 'omit',
              'attributes', 'onerror')
TALNAME = {'omit': 'omit-tag', 'onerror': 'on-error'}


def expr_text(e):
    """TALES spelling of a probe expression."""
    if 'py' in e:
        return e['py']
    if 'pipe' in e:
        return ' | '.join(expr_text(x) for x in e['pipe'])
    if 'attr' in e:
        return '(%s).%s' % (expr_text(e['attr'][0]), e['attr'][1])
    if 'python' in e:
        return 'python: ' + expr_text(e['python'])
    if 'not' in e:
        return 'not: ' + expr_text(e['not'])
    if 'exists' in e:
        return 'exists: ' + expr_text(e['exists'])
    if 'structure' in e:
        return 'structure: ' + expr_text(e['structure'])
    if 'string' in e:
        out = 'string:'
        for part in e['string']:
            if isinstance(part, str):
                out += part.replace('$', '$$')
            else:
                out += '${' + expr_text(part) + '}'
        return out
    raise ValueError(e)


def indent_text(i):
    """indentation of an element that starts on its own line: a number of blanks, or the text itself (tabs)"""
    return ' ' * i if isinstance(i, int) else i


def attr_escape(s):
    return s.replace('&', '&amp;').replace('<', '&lt;').replace('"', '&quot;')


def statement_text(el, name):
    v = el[name]
    if name == 'define':
        tn = lambda n: n if isinstance(n, str) else '(' + ', '.join(n) + ')'   # noqa: E731  (several names at once)
        return '; '.join(('%s %s %s' % (sc, tn(n), expr_text(e).replace(';', ';;'))) if sc != 'local'
                         else '%s %s' % (tn(n), expr_text(e).replace(';', ';;')) for sc, n, e in v)
    if name in ('condition', 'switch', 'case'):
        return expr_text(v)
    if name == 'repeat':
        nm = v[0] if isinstance(v[0], str) else '(' + ', '.join(v[0]) + ')'
        return '%s %s' % (nm, expr_text(v[1]))
    if name in ('content', 'replace', 'onerror'):
        mode, e = v
        return ('structure ' if mode == 'structure' else '') + expr_text(e)
    if name == 'omit':
        return '' if v == '' else expr_text(v)
    if name == 'attributes':
        return '; '.join('%s %s' % (n, expr_text(e).replace(';', ';;')) if n else
                         expr_text(e).replace(';', ';;') for n, e in v)
    raise ValueError(name)


def xml_escape(s):
    return s.replace('&', '&amp;').replace('<', '&lt;').replace('>', '&gt;')


def parts_text(parts, escape=True):
    out = ''
    for part in parts:
        if isinstance(part, str):
            out += part
        elif 'dollar' in part:
            out += '$$' * part['dollar']
        elif part['interp'].get('raw') is not None:
            out += '${' + part['interp']['raw'] + '}'      # the expression exactly as it is to be written
        else:
            t = expr_text(part['interp'])
            out += '${' + (xml_escape(t) if escape else t) + '}'
    return out


NS_URI = {'tal': 'http://xml.zope.org/namespaces/tal', 'metal': 'http://xml.zope.org/namespaces/metal',
          'i18n': 'http://xml.zope.org/namespaces/i18n', 'meta': 'http://xml.zope.org/namespaces/meta'}


def attr_name(spelling, ns, name, node=None, kind=None):
    """spelling of a language attribute: prefix form (possibly renamed prefix) or data- form; a node may ask for
    the data form of some of its statement kinds only ('data_for': ['content', ...])"""
    if node is not None and kind in (node.get('data_for') or ()):
        return 'data-%s-%s' % (ns, name)
    if spelling and spelling.get('form') == 'data':
        return 'data-%s-%s' % (ns, name)
    pfx = (spelling or {}).get('prefixes', {}).get(ns, ns)
    return '%s:%s' % (pfx, name)


def declarations(spelling):
    out = []
    for ns, pfx in sorted((spelling or {}).get('prefixes', {}).items()):
        if pfx != ns:
            out.append('xmlns:%s="%s"' % (pfx, NS_URI[ns]))
    return out


def serialise(node, prefix='tal', spelling=None, root=True):
    """Template text of a node (element, text, interpolation) -- the *generator's* rendering of the
    program, used as input for the real compiler.  ``spelling`` re-spells the language attributes:
    {'form': 'prefix'|'data', 'prefixes': {'tal': 't', ...}, 'declare': 'root'|'each',
     'element_form': True (elements flagged ns_element are written as <tal:tag unprefixed-statements>)}"""
    if spelling is None and prefix != 'tal':
        spelling = {'prefixes': {'tal': prefix}}
    if isinstance(node, str):
        return node
    if 'interp' in node:
        # markup characters of the expression are written as entities (decoded before evaluation)
        return '${' + xml_escape(expr_text(node['interp'])) + '}'
    if 'dollar' in node:
        return '$$' * node['dollar']
    if 'code' in node:
        return '<?python ' + node['code'] + ' ?>'      # a code block (one line)
    if 'comment' in node:
        return '<!--' + node.get('kind', '') + parts_text(node['comment'], False) + '-->'
    if 'cdata' in node:
        return '<![CDATA[' + parts_text(node['cdata'], False) + ']]>'
    out = ''
    if node.get('indent') is not None:
        out += '\n' + indent_text(node['indent'])
    as_element = bool(spelling and spelling.get('element_form') and node.get('ns_element'))
    tag = node['tag']
    if as_element:
        tag = (spelling.get('prefixes', {}).get('tal', 'tal')) + ':' + tag
    out += '<' + tag
    stat = ['%s=%s%s%s' % (n, q, v if isinstance(v, str) else ''.join(
        x if isinstance(x, str) else ('$$' * x['dollar'] if 'dollar' in x else
                                      '${' + attr_escape(expr_text(x['interp'])) + '}') for x in v), q)
        for n, v, q in [(a[0], a[1], a[2] if len(a) > 2 else '"') for a in node.get('static', [])]]
    decl = []
    if spelling and ((root and spelling.get('declare', 'root') == 'root') or
                     (spelling.get('declare') == 'each' and any(s in node for s in STATEMENTS))):
        decl = declarations(spelling)
    lang = []
    if node.get('interp_switch'):
        lang.append('%s="%s"' % (attr_name(spelling, 'meta', 'interpolation'), node['interp_switch']))
    for key, attr in (('define_macro', 'define-macro'), ('use_macro', 'use-macro'), ('extend_macro', 'extend-macro'),
                      ('fill_slot', 'fill-slot'), ('define_slot', 'define-slot')):
        if node.get(key):
            lang.append('%s="%s"' % (attr_name(spelling, 'metal', attr), attr_escape(node[key])))
    for key in ('translate', 'name', 'domain', 'context', 'target', 'attributes'):
        if ('i18n_' + key) in node:
            lang.append('%s="%s"' % (attr_name(spelling, 'i18n', key, node, 'i18n_' + key), attr_escape(node['i18n_' + key])))
    present = [s for s in node.get('order', STATEMENTS) if s in node]
    present += [s for s in STATEMENTS if s in node and s not in present]
    dyn = []
    for st in present:
        if as_element:
            if st == 'omit' and not node.get('keep_omit'):
                continue                     # the element form implies the omission of the tag
            dyn.append('%s="%s"' % (TALNAME.get(st, st), attr_escape(statement_text(node, st))))
        else:
            dyn.append('%s="%s"' % (attr_name(spelling, 'tal', TALNAME.get(st, st), node, st),
                                    attr_escape(statement_text(node, st))))
    # statement attributes are interleaved after the static ones unless 'mix' asks otherwise
    parts = decl + stat + lang + dyn
    if node.get('mix'):
        parts = decl + dyn[:1] + stat + lang + dyn[1:]
    for p in parts:
        out += ' ' + p
    children = node.get('children')
    if children is None:
        out += ' />'
        return out
    out += '>'
    for c in children:
        out += serialise(c, prefix, spelling, False)
    if node.get('close_indent') is not None:
        out += '\n' + indent_text(node['close_indent'])
    out += '</' + tag + '>'
    return out


def walk(node):
    if isinstance(node, dict) and 'tag' in node:
        yield node
        for c in node.get('children') or []:
            yield from walk(c)


def py(src):
    return {'py': src}
