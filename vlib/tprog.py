"""Abstract template programs (TProg): JSON-serialisable element trees with TAL statements whose
expressions come from a small probe language, their serialisation to template text, and helpers
shared by the generators (DESIGN.md 3.2).

Element  := {'tag', 'static': [[name, value], ...], 'indent': int|None, 'children': [Element|str],
             optional statements:
             'define': [[scope, name, Expr], ...], 'condition': Expr, 'repeat': [name, Expr],
             'switch': Expr, 'case': Expr, 'content': [mode, Expr], 'replace': [mode, Expr],
             'omit': '' | Expr, 'attributes': [[name, Expr], ...], 'onerror': [mode, Expr],
             'order': [statement names in the order they are written in the start tag]}
Expr     := {'py': source} | {'pipe': [Expr...]} | {'not': Expr} | {'exists': Expr}
          | {'string': [str|Expr...]} | {'structure': Expr}
Text child := str (may contain '${...}' only through {'interp': Expr} children)
Child    := Element | str | {'interp': Expr}
"""
from __future__ import annotations

STATEMENTS = ('define', 'condition', 'repeat', 'switch', 'case', 'content', 'replace', 'omit',
              'attributes', 'onerror')
TALNAME = {'omit': 'omit-tag', 'onerror': 'on-error'}


def expr_text(e):
    """TALES spelling of a probe expression."""
    if 'py' in e:
        return e['py']
    if 'pipe' in e:
        return ' | '.join(expr_text(x) for x in e['pipe'])
    if 'attr' in e:
        return '(%s).%s' % (expr_text(e['attr'][0]), e['attr'][1])
    if 'python' in e:
        return 'python: ' + expr_text(e['python'])
    if 'not' in e:
        return 'not: ' + expr_text(e['not'])
    if 'exists' in e:
        return 'exists: ' + expr_text(e['exists'])
    if 'structure' in e:
        return 'structure: ' + expr_text(e['structure'])
    if 'string' in e:
        out = 'string:'
        for part in e['string']:
            if isinstance(part, str):
                out += part.replace('$', '$$')
            else:
                out += '${' + expr_text(part) + '}'
        return out
    raise ValueError(e)


def attr_escape(s):
    return s.replace('&', '&amp;').replace('<', '&lt;').replace('"', '&quot;')


def statement_text(el, name):
    v = el[name]
    if name == 'define':
        return '; '.join(('%s %s %s' % (sc, n, expr_text(e).replace(';', ';;'))) if sc != 'local'
                         else '%s %s' % (n, expr_text(e).replace(';', ';;')) for sc, n, e in v)
    if name in ('condition', 'switch', 'case'):
        return expr_text(v)
    if name == 'repeat':
        nm = v[0] if isinstance(v[0], str) else '(' + ', '.join(v[0]) + ')'
        return '%s %s' % (nm, expr_text(v[1]))
    if name in ('content', 'replace', 'onerror'):
        mode, e = v
        return ('structure ' if mode == 'structure' else '') + expr_text(e)
    if name == 'omit':
        return '' if v == '' else expr_text(v)
    if name == 'attributes':
        return '; '.join('%s %s' % (n, expr_text(e).replace(';', ';;')) if n else
                         expr_text(e).replace(';', ';;') for n, e in v)
    raise ValueError(name)


def xml_escape(s):
    return s.replace('&', '&amp;').replace('<', '&lt;').replace('>', '&gt;')


def parts_text(parts, escape=True):
    out = ''
    for part in parts:
        if isinstance(part, str):
            out += part
        elif 'dollar' in part:
            out += '$$' * part['dollar']
        else:
            t = expr_text(part['interp'])
            out += '${' + (xml_escape(t) if escape else t) + '}'
    return out


def serialise(node, prefix='tal'):
    """Template text of a node (element, text, interpolation) -- the *generator's* rendering of the
    program, used as input for the real compiler."""
    if isinstance(node, str):
        return node
    if 'interp' in node:
        # markup characters of the expression are written as entities (decoded before evaluation)
        return '${' + xml_escape(expr_text(node['interp'])) + '}'
    if 'dollar' in node:
        return '$$' * node['dollar']
    if 'comment' in node:
        return '<!--' + node.get('kind', '') + parts_text(node['comment'], False) + '-->'
    if 'cdata' in node:
        return '<![CDATA[' + parts_text(node['cdata'], False) + ']]>'
    out = ''
    if node.get('indent') is not None:
        out += '\n' + ' ' * node['indent']
    out += '<' + node['tag']
    stat = ['%s="%s"' % (n, v if isinstance(v, str) else ''.join(
        x if isinstance(x, str) else ('$$' * x['dollar'] if 'dollar' in x else
                                      '${' + attr_escape(expr_text(x['interp'])) + '}') for x in v))
        for n, v in node.get('static', [])]
    if node.get('interp_switch'):
        stat.append('meta:interpolation="%s"' % node['interp_switch'])
    for key, attr in (('define_macro', 'define-macro'), ('use_macro', 'use-macro'), ('extend_macro', 'extend-macro'),
                      ('fill_slot', 'fill-slot'), ('define_slot', 'define-slot')):
        if node.get(key):
            stat.append('metal:%s="%s"' % (attr, attr_escape(node[key])))
    for key in ('translate', 'name', 'domain', 'context', 'target', 'attributes'):
        if ('i18n_' + key) in node:
            stat.append('i18n:%s="%s"' % (key, attr_escape(node['i18n_' + key])))
    present = [s for s in node.get('order', STATEMENTS) if s in node]
    present += [s for s in STATEMENTS if s in node and s not in present]
    dyn = ['%s:%s="%s"' % (prefix, TALNAME.get(s, s), attr_escape(statement_text(node, s)))
           for s in present]
    # statement attributes are interleaved after the static ones unless 'mix' asks otherwise
    parts = stat + dyn
    if node.get('mix'):
        parts = dyn[:1] + stat + dyn[1:]
    for p in parts:
        out += ' ' + p
    children = node.get('children')
    if children is None:
        out += ' />'
        return out
    out += '>'
    for c in children:
        out += serialise(c, prefix)
    if node.get('close_indent') is not None:
        out += '\n' + ' ' * node['close_indent']
    out += '</' + node['tag'] + '>'
    return out


def walk(node):
    if isinstance(node, dict) and 'tag' in node:
        yield node
        for c in node.get('children') or []:
            yield from walk(c)


def py(src):
    return {'py': src}
