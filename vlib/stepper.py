"""Engine S: interleaving / crash points by instrumenting the *real* functions (DESIGN.md 3.4).

``stepped(cls, names, glb)`` takes the current source of the named methods, inserts
``yield (function, lineno)`` before every statement (recursively in if/for/while/with/try bodies), turns
calls ``self.<stepped>(...)`` into ``yield from self.S_<stepped>(...)`` and compiles the result in the
defining module's globals with the names in ``glb`` rebound (stand-ins for os / tempfile / locks ...).
The statements executed are chameleon's own; only the interleaving points are added.
"""
from __future__ import annotations

import ast
import inspect
import textwrap


class _Yieldify(ast.NodeTransformer):
    def __init__(self, fname, stepped_names):
        self.fname, self.stepped = fname, stepped_names

    def _steps(self, body):
        out = []
        for st in body:
            out.append(ast.Expr(ast.Yield(ast.Constant((self.fname, st.lineno)))))
            out.append(self.visit(st))
        return out

    def visit_FunctionDef(self, node):
        node.body = self._steps(node.body)
        node.decorator_list = []
        node.returns = None
        for a in node.args.args + node.args.kwonlyargs:
            a.annotation = None
        return node

    def visit_If(self, node):
        node.test = self.visit(node.test)
        node.body = self._steps(node.body)
        node.orelse = self._steps(node.orelse)
        return node

    def visit_For(self, node):
        node.body = self._steps(node.body)
        return node

    def visit_While(self, node):
        node.body = self._steps(node.body)
        return node

    def visit_With(self, node):
        # one more interleaving/crash point after the last statement of the body: the context manager's
        # __exit__ (e.g. the close() of a file) has not run yet
        last = node.body[-1].end_lineno if node.body else node.lineno
        node.body = self._steps(node.body) + [
            ast.Expr(ast.Yield(ast.Constant((self.fname, (last or node.lineno) + 0.5))))]
        return node

    def visit_Try(self, node):
        node.body = self._steps(node.body)
        for h in node.handlers:
            h.body = self._steps(h.body)
        node.orelse = self._steps(node.orelse)
        node.finalbody = self._steps(node.finalbody)
        return node

    def visit_Call(self, node):
        self.generic_visit(node)
        f = node.func
        if isinstance(f, ast.Attribute) and isinstance(f.value, ast.Name) and f.value.id == 'self' \
                and f.attr in self.stepped:
            return ast.YieldFrom(ast.Call(ast.Attribute(ast.Name('self', ast.Load()), 'S_' + f.attr, ast.Load()),
                                          node.args, node.keywords))
        return node

    def visit_Lambda(self, node):
        return node


def stepped(cls, names, glb, owner=None):
    """-> {'S_<name>': generator function}; ``owner`` maps a method name to the class it is taken from
    (default: ``cls`` via normal attribute lookup)."""
    out = {}
    for n in names:
        src_cls = (owner or {}).get(n, cls)
        fn = inspect.getattr_static(src_cls, n)
        fn = getattr(fn, '__func__', fn)
        # in-memory mutants carry their source along (inspect cannot find it)
        src = textwrap.dedent(getattr(fn, '__verif_source__', None) or inspect.getsource(fn))
        tree = ast.parse(src)
        tree = _Yieldify(n, set(names)).visit(tree)
        tree.body[0].name = 'S_' + n
        ast.fix_missing_locations(tree)
        ns = dict(fn.__globals__)
        ns.update(glb)
        exec(compile(tree, '<stepped %s>' % n, 'exec'), ns)
        out['S_' + n] = ns['S_' + n]
    return out


class _CallsToYieldFrom(ast.NodeTransformer):
    """calls of plain names listed in ``calls`` become ``yield from <generator name>(...)``"""

    def __init__(self, calls):
        self.calls = calls

    def visit_Call(self, node):
        self.generic_visit(node)
        if isinstance(node.func, ast.Name) and node.func.id in self.calls:
            return ast.YieldFrom(ast.Call(ast.Name(self.calls[node.func.id], ast.Load()), node.args, node.keywords))
        return node

    def visit_Lambda(self, node):
        return node


def stepped_function(fn, name, glb, calls=None):
    """statement-instrumented generator version of a plain function (also a closure's inner function): ``calls``
    maps names the function calls to names (bound in ``glb``) of stepped generator functions"""
    src = textwrap.dedent(getattr(fn, '__verif_source__', None) or inspect.getsource(fn))
    tree = ast.parse(src)
    tree = _Yieldify(name, set()).visit(tree)
    if calls:
        tree = _CallsToYieldFrom(calls).visit(tree)
    tree.body[0].name = 'S_' + name
    ast.fix_missing_locations(tree)
    ns = dict(fn.__globals__)
    if fn.__closure__:
        for var, cell in zip(fn.__code__.co_freevars, fn.__closure__):
            ns[var] = cell.cell_contents
    ns.update(glb)
    exec(compile(tree, '<stepped %s>' % name, 'exec'), ns)
    return ns['S_' + name]


def run_to_end(gen):
    """drive a stepped generator to completion; returns its return value"""
    try:
        while True:
            next(gen)
    except StopIteration as stop:
        return stop.value


def advance(gen, n=1):
    """advance n steps; returns ('running', None) or ('done', value) or ('raised', exc)"""
    try:
        for _ in range(n):
            next(gen)
    except StopIteration as stop:
        return ('done', stop.value)
    except Exception as exc:
        return ('raised', exc)
    return ('running', None)


# ---------------------------------------------------------------------------------------------------
# model file system (POSIX semantics for a crash of the *process*: rename/unlink atomic, data of an open
# file reaches the disk only when flushed/closed; a dying process may have flushed any prefix)
# ---------------------------------------------------------------------------------------------------
class ModelFS:
    def __init__(self):
        self.names = {}       # path -> inode id
        self.inodes = {}      # inode id -> bytes on disk
        self.counter = 0
        self.events = 0       # number of file-system operations performed (scheduling granularity)

    def read(self, path):
        return self.inodes[self.names[path]]

    def exists(self, path):
        return path in self.names


class ModelFile:
    def __init__(self, fs, inode, proc, encoding=None):
        self.fs, self.inode, self.proc = fs, inode, proc
        self.encoding = encoding              # text mode: what is written is str, encoded into the buffer
        self.buffer = b''
        self.closed = False
        proc.open_files.append(self)

    def write(self, data):
        if self.proc.dead:
            return
        self.fs.events += 1
        if self.encoding is not None:
            data = data.encode(self.encoding)
        self.buffer = self.buffer + data      # buffered: not on disk yet

    def flush(self):
        if self.proc.dead or self.closed:
            return
        self.fs.events += 1
        self.fs.inodes[self.inode] = self.fs.inodes[self.inode] + self.buffer
        self.buffer = b''

    def close(self):
        if self.proc.dead or self.closed:
            return
        self.flush()
        self.closed = True

    def __enter__(self):
        return self

    def __exit__(self, *a):
        self.close()
        return False


class Proc:
    """one process using the model file system (state only; the stand-ins below act for CURRENT[0])"""

    def __init__(self, fs, tag=''):
        self.fs = fs
        self.dead = False
        self.open_files = []
        self.tag = tag

    def crash(self, cut):
        """the process dies now: of every open file an arbitrary prefix (``cut`` bytes) of the buffered data
        has reached the disk; nothing else happens afterwards (the stand-ins are inert)"""
        for f in self.open_files:
            if not f.closed:
                self.fs.inodes[f.inode] = self.fs.inodes[f.inode] + f.buffer[:cut]
        self.dead = True


CURRENT = [None]      # the process on whose behalf the stand-ins act (set by the scheduler)


class _path:
    @staticmethod
    def join(*a):
        import os
        return os.path.join(*a)

    @staticmethod
    def splitext(p):
        import os
        return os.path.splitext(p)

    @staticmethod
    def basename(p):
        import os
        return os.path.basename(p)

    @staticmethod
    def exists(p):
        return CURRENT[0].fs.exists(p)


class model_os:
    path = _path
    import os as _real
    O_WRONLY, O_RDWR, O_CREAT, O_TRUNC, O_EXCL, O_APPEND = (_real.O_WRONLY, _real.O_RDWR, _real.O_CREAT, _real.O_TRUNC,
                                                            _real.O_EXCL, _real.O_APPEND)
    O_BINARY = getattr(_real, 'O_BINARY', 0)
    O_NOFOLLOW = getattr(_real, 'O_NOFOLLOW', 0)
    O_CLOEXEC = getattr(_real, 'O_CLOEXEC', 0)
    del _real

    @staticmethod
    def open(path, flags, mode=0o777):
        """POSIX open(2) on the model: an existing name gives the existing inode (truncated with O_TRUNC)"""
        proc = CURRENT[0]
        fs = proc.fs
        fs.events += 1
        if proc.dead:
            return -1
        if path in fs.names:
            if flags & model_os.O_EXCL and flags & model_os.O_CREAT:
                raise FileExistsError(path)
            ino = fs.names[path]
            if flags & model_os.O_TRUNC:
                fs.inodes[ino] = b''
            return ino
        if not flags & model_os.O_CREAT:
            raise FileNotFoundError(path)
        fs.counter += 1
        fs.inodes[fs.counter] = b''
        fs.names[path] = fs.counter
        return fs.counter

    @staticmethod
    def close(fd):
        return None

    @staticmethod
    def fdopen(fd, mode='wb', buffering=-1, encoding=None, errors=None, newline=None):
        proc = CURRENT[0]
        return ModelFile(proc.fs, fd, proc, None if 'b' in mode else (encoding or 'utf-8'))

    @staticmethod
    def rename(a, b):
        proc = CURRENT[0]
        if proc.dead:
            return
        proc.fs.events += 1
        proc.fs.names[b] = proc.fs.names.pop(a)

    replace = rename

    @staticmethod
    def remove(a):
        proc = CURRENT[0]
        if proc.dead:
            return
        proc.fs.events += 1
        proc.fs.names.pop(a, None)


class model_tempfile:
    @staticmethod
    def mkstemp(prefix='', suffix='', dir=''):
        proc = CURRENT[0]
        fs = proc.fs
        fs.counter += 1
        fs.events += 1
        name = _path.join(dir, '%s%s%d%s' % (prefix, proc.tag, fs.counter, suffix))
        if not proc.dead:
            fs.inodes[fs.counter] = b''
            fs.names[name] = fs.counter
        return fs.counter, name


class model_py_compile:
    @staticmethod
    def compile(name):
        return None


def model_open(path, mode='r', *a, **kw):
    """builtin open() on the model: writing creates or truncates the named file"""
    proc = CURRENT[0]
    fs = proc.fs
    fs.events += 1
    if 'w' in mode or 'a' in mode or 'x' in mode:
        if proc.dead:
            return ModelFile(fs, -1, proc)
        if path in fs.names:
            if 'x' in mode:
                raise FileExistsError(path)
            ino = fs.names[path]
            if 'w' in mode:
                fs.inodes[ino] = b''
        else:
            fs.counter += 1
            ino = fs.counter
            fs.inodes[ino] = b''
            fs.names[path] = ino
        return ModelFile(fs, ino, proc)
    raise NotImplementedError('model open() for reading')


MODEL_GLOBALS = {'open': model_open, 'os': model_os, 'tempfile': model_tempfile, 'py_compile': model_py_compile,
                 'acquire_lock': lambda: None, 'release_lock': lambda: None}
