"""Claims per property (source of MANIFEST.json; regenerate with bin/mkmanifest.py)."""
NOTES = ("Solver-based checking of the real code: CrossHair/z3 symbolic execution of chameleon's own functions "
         "and generated render code, z3 regex queries from the live patterns. Exit 0 held / 1 VIOLATION (replayed "
         "natively) / 2 inconclusive. See DESIGN.md.")
NOT_APPLICABLE = {}
G_NOTE = ('Programs (templates) are enumerated from a bounded grammar and compiled concretely by the real compiler; for each program the '
          'generated render function + real run-time are executed symbolically (CrossHair/z3) against a documentation-derived reference '
          'interpreter (vlib/refsem.py) over all bindings inside the stated bound. Trusted: CrossHair models, chsym plugin, the reference interpreter.')
CLAIMS = {
    'C01': dict(
        engine='G', level='translation_validation', design_ref='DESIGN.md 4 C01',
        technique='differential symbolic execution (CrossHair/z3): compiled render function vs reference interpreter, symbolic bindings, enumerated programs',
        text='Per enumerated template the solver decides equality of output and call log with the reference semantics for all bindings in the bound.',
        note=G_NOTE),
    'C04': dict(
        engine='G', level='translation_validation', design_ref='DESIGN.md 4 C04',
        technique='differential symbolic execution (CrossHair/z3): compiled render function vs reference TALES interpreter; leaf outcomes (value / exception class) symbolic',
        text='Per enumerated expression shape x site the solver decides, for every combination of leaf outcomes, equality of output, raised exception class and ordered call log with the reference TALES semantics.',
        note=G_NOTE),
    'C05': dict(
        engine='G+X', level='translation_validation', design_ref='DESIGN.md 4 C05',
        technique='differential symbolic execution (CrossHair/z3) of scoping templates vs reference scope stack; metamorphic differential execution of macro programs vs their inlined form; symbolic operation sequences on utils.Scope vs two-level model; symbolic names through the reserved-name predicate',
        text='Per scoping template the solver decides visibility probes for every initial binding state; Scope operations and the reserved-name predicate are decided for all operation codes/keys/values resp. all code points within the bound.',
        note=G_NOTE),
    'C13': dict(
        engine='G', level='translation_validation', design_ref='DESIGN.md 4 C13',
        technique='differential symbolic execution (CrossHair/z3): compiled render function vs reference try/except-per-element semantics; failing evaluation points symbolic',
        text='Per enumerated on-error template the solver decides output and handler-call sequence for every assignment of {ok, raises} to the evaluation points.',
        note=G_NOTE),
    'C02': dict(
        engine='X', level='model_checking', design_ref='DESIGN.md 4 C02',
        technique='symbolic execution (CrossHair/z3) of the compiled render function with the inserted value as k symbolic code points; structural escape oracle',
        text='Per insertion site and value kind the solver decides over all code points (k <= 3 quick, <= 4-5 thorough) that the rendered region contains no raw markup/quote and un-escapes to the value.',
        note='Trusted: CrossHair string model + chsym plugin (str subclasses modelled as typed symbolic strings), the structural oracle; programs (sites) are enumerated.'),
    'C08': dict(
        engine='X+G', level='model_checking', design_ref='DESIGN.md 4 C08',
        technique='symbolic execution (CrossHair/z3) of RepeatItem arithmetic for unbounded positions, letter/roman kernels on symbolic positions/digits; differential symbolic execution of repeat templates vs reference',
        text='Position arithmetic decided for all 0 <= pos < length (no bound); letter/roman for the stated ranges; rendering (iterable kinds, unpacking, nesting, separators) per enumerated template over symbolic sequence lengths.',
        note=G_NOTE),
    'C07': dict(
        engine='G', level='translation_validation', design_ref='DESIGN.md 4 C07',
        technique='differential symbolic execution (CrossHair/z3): compiled start-tag code vs attribute map derived from the property statement; dynamic values and dictionary key presence symbolic',
        text='Per enumerated (static attributes x tal:attributes list x boolean configuration) the solver decides the rendered attribute list for every combination of dynamic value classes and dictionary contents.',
        note=G_NOTE),
    'C06': dict(
        engine='X+G', level='model_checking', design_ref='DESIGN.md 4 C06',
        technique='symbolic execution (CrossHair/z3) of the real Interpolator on symbolic text with a symbolic validator mask vs a scanner oracle; entity-decoding kernel; differential symbolic execution of interpolation contexts/switch templates',
        text='Interpolator segmentation decided for all code points of each text shape and all accept/reject patterns of the expression validator; contexts and on/off switches per enumerated template.',
        note='Trusted: CrossHair regex/string models + chsym plugin; validator stand-in (accept iff bit len(candidate) of a symbolic mask) replaces the Python parser; reference interpreter for contexts.'),
    'C11': dict(
        engine='X', level='model_checking', design_ref='DESIGN.md 4 C11',
        technique='symbolic execution (CrossHair/z3) of Token operations, statement-argument parsers and the front end on symbolic text: every produced/raised token must satisfy source[pos:pos+len]==token; solver-enumerated compile histories (clause x offset sequences) for the error tokens of real compilations',
        text='Inductive step per Token operation and bounded producer/front-end harnesses decided over all code points of each shape; line/column closed form; well-formed skeletons never rejected; for 19 erroneous clauses at 6 offsets every sequence of 2-3 compilations in one process reports token, offset, line and column of the compilation that raised.',
        note='Trusted: CrossHair string/regex models + chsym plugin (Token.__new__ modelled). In the compile-history family each compilation is concrete (compile() is a C boundary); which clause, at which offset, in which order is the solver\'s choice.'),
    'C12': dict(
        engine='G', level='translation_validation', design_ref='DESIGN.md 4 C12',
        technique='symbolic execution (CrossHair/z3) of compiled render functions with a symbolic failing evaluation point and exception class; oracle on exception type/args and parsed message records',
        text='Per enumerated template the solver decides for every (failing point, exception class) that the raised exception keeps class/args, is a RenderError (or passes through unwrapped where required) and names the expected expression/line/column chain.',
        note='Trusted: CrossHair models; expected positions computed from the template text by the harness. A private BaseException subclass stands for KeyboardInterrupt/SystemExit.'),
    'C09': dict(
        engine='G', level='translation_validation', design_ref='DESIGN.md 4 C09',
        technique='metamorphic differential symbolic execution (CrossHair/z3): template with METAL vs its inlined METAL-free equivalent (hand-written and grammar-generated pairs), both compiled by the real compiler, symbolic bindings',
        text='Per enumerated (macro library, caller) pair the solver decides that use-macro/extend-macro renders exactly like the inlined element with slots filled, for all bindings in the bound.',
        note='Trusted: CrossHair models; the inliner vlib/metal_inline.py (the METAL semantics as stated by the property).'),
    'C10': dict(
        engine='G', level='translation_validation', design_ref='DESIGN.md 4 C10',
        technique='differential symbolic execution (CrossHair/z3): compiled render function with an argument-revealing translation function vs reference i18n semantics (hand-written and grammar-generated programs); metamorphic pairs across macros and slot fillers',
        text='Per enumerated i18n template the solver decides, for all bindings, the number and order of translation calls and every argument (msgid, mapping, default, domain, context, target) through an argument-revealing translation function.',
        note=G_NOTE),
    'C19': dict(
        engine='G', level='translation_validation', design_ref='DESIGN.md 4 C19',
        technique='differential symbolic execution (CrossHair/z3): strict vs non-strict compilation of the same template; reachability of planted invalid expressions decided by the reference interpreter over symbolic bindings',
        text='Per enumerated template the solver decides for all bindings: valid templates render identically under both settings; a planted invalid expression is reported at construction (strict) resp. at render time iff reached, with the same token and offset.',
        note=G_NOTE),
    'C20': dict(
        engine='X', level='model_checking', design_ref='DESIGN.md 4 C20',
        technique='symbolic execution (CrossHair/z3) of the text-mode front end and of compiled text templates with symbolic source characters / inserted values; solver-enumerated render histories x output encodings for text template files',
        text='Text-mode tokenizer and front end decided over all code points of each source shape; rendered output of text templates decided for all inserted values of k symbolic code points.',
        note='Trusted: CrossHair models + chsym plugin; the ${...} delimiting is covered by the C06 kernel.'),
    'C18': dict(
        engine='G', level='translation_validation', design_ref='DESIGN.md 4 C18',
        technique='metamorphic differential symbolic execution (CrossHair/z3): the same template in several spellings of its language markup, all compiled by the real compiler, symbolic bindings; output scanned for language markup',
        text='Per enumerated template the solver decides for all bindings that every spelling renders identically, that no TAL/METAL/I18N/meta attribute, prefix or namespace URI reaches the output and that every foreign attribute does.',
        note='Trusted: CrossHair models; the re-spelling generator vlib/tprog.py. Prefix strings are enumerated (they become dict keys).'),
    'C17': dict(
        engine='Z+X', level='model_checking', design_ref='DESIGN.md 4 C17',
        technique='z3 regular-language inclusion from the live RE_ENCODING pattern (no length bound); symbolic execution (CrossHair/z3) of read_xml_encoding (str-domain twin regenerated from its source), read_bytes and detect_encoding over documents assembled from symbolic grammar choices',
        text='Language-level facts about the declaration pattern are decided without length bound; the decision order BOM > declaration > meta > default, BOM removal, XML/HTML classification and re-cooking are decided over all combinations of the enumerated grammar choices.',
        note='Trusted: stdlib codecs; CrossHair models; read_xml_encoding is executed as a str-domain twin generated from its current source (bytes literals -> str, decode removed) and pinned to the real bytes function on representatives.'),
    'C15': dict(
        engine='S+X', level='model_checking', design_ref='DESIGN.md 4 C15',
        technique='symbolic execution (CrossHair/z3) of the statement-instrumented real ModuleLoader.build/get against a model file system with symbolic crash step, flushed prefix and two-writer schedule; real digest()/_get_module_name() with an injective hash recorder over symbolic option choices',
        text='Every crash point x flushed prefix and every interleaving of two writers (bounded schedule) leaves nothing or a complete module under the looked-up name; two configurations differing in one compile-relevant item never share a module file name.',
        note='Trusted: the model file system (POSIX process-crash semantics), perfect-hash assumption, CrossHair. Interleaving points are inserted by AST instrumentation at check time (no hooks in /repo).'),
    'C14': dict(
        engine='S+G', level='model_checking', design_ref='DESIGN.md 4 C14',
        technique='symbolic execution (CrossHair/z3) of the statement-instrumented real cook_check/cook for two threads with a symbolic schedule; symbolic execution of compiled templates for determinism / no carried state; symbolic execution of the real loader over a symbolic existence matrix (caller-owned inputs untouched)',
        text='Every statement-level interleaving of two threads within the bounded symbolic schedule returns what each thread returns alone; repeated/independent/interleaved renders agree for all symbolic arguments in range.',
        note='Trusted: statement-granular scheduling model (CPython may pre-empt inside a statement), stubbed mtime/read/compile step, CrossHair. Interleaving points are inserted by AST instrumentation at check time (no hooks in /repo).'),
    'C03': dict(
        engine='X+Z', level='model_checking', design_ref='DESIGN.md 4 C03',
        technique='symbolic execution (CrossHair/z3) of iter_xml/match_tag/emitters on shape-enumerated character-symbolic strings; z3 regex inclusion from the live lexer pattern',
        text='Bounded solver verdict over all code points for every enumerated string shape; unbounded regular-language totality of the lexer.',
        note='Trusted: CrossHair string/regex model + chsym plugin (Token.__new__ modelled, other Token methods real); whole-pipeline PageTemplate(doc)()==doc is outside (compile() boundary).'),
    'C16': dict(
        engine='X', level='model_checking', design_ref='DESIGN.md 4 C16',
        technique='symbolic execution (CrossHair/z3) of the real file-template reload path (cook_check, mtime, read, cook, render, Macros) on a model file: one inductive step from every reachable state plus bounded histories of symbolic operations / versions / modification times; symbolic execution of the real TemplateLoader.load, zpt loader and PageTemplateFile.__init__ over a symbolic file-existence matrix',
        text='One use from every reachable state (never used / compiled from version v at mtime m; file unchanged, rewritten or touched; any mtime) is decided to serve the latest version, recompile exactly when the mtime changed and leave a state equivalent to a freshly built one, which extends to histories of any length by induction; bounded histories and loader resolution (first match, extension rule, same instance, load: next to the template first) are decided for all operation sequences resp. existence patterns in the bound.',
        note='Trusted: the model file (open/getmtime/exists in chameleon.template and chameleon.loader answer from a dict resp. a symbolic matrix), modification times fresh on every change, compile step memoised per body (3 concrete documents), the state-equivalence argument (behaviour depends only on the compared instance attributes), CrossHair.'),
}
