"""In-memory mutants shared by several checks (applied to the imported chameleon modules of one job process)."""
import inspect
import textwrap


def digest_ignores_template_kind():
    """the module cache key no longer tells a text-mode template from a markup template of the same source:
    neither the class name (BaseTemplate.digest) nor the mode (PageTemplate.digest) takes part"""
    from chameleon import template as ct
    from chameleon.zpt import template as zt
    src_fn = ct.BaseTemplate.digest
    code = textwrap.dedent(inspect.getsource(src_fn))
    new = code.replace("sha.update(class_name)", "pass")
    assert new != code
    ns = src_fn.__globals__
    exec('from __future__ import annotations\n' + new, ns)
    ct.BaseTemplate.digest = ns['digest']
    src_fn = zt.PageTemplate.digest
    code = textwrap.dedent(inspect.getsource(src_fn))
    import re
    new = re.sub(r"\n\s*'mode',\n", "\n", code)
    assert new != code
    new = new.replace('super().digest(body, names)', 'BaseTemplate.digest(self, body, names)')
    ns = src_fn.__globals__
    exec('from __future__ import annotations\n' + new, ns)
    zt.PageTemplate.digest = ns['digest']
