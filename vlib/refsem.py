"""Reference interpreter for TProg (vlib.tprog), written from docs/reference.rst and the TAL/TALES
specifications -- not from the compiler.  Plain Python, so it runs under CrossHair on the same
symbolic bindings as the real render function (DESIGN.md 3.2).

Where documentation and implementation differ and the property statement is silent the relative order
is left free: the interpreter brackets such evaluations with ``free_begin/free_end`` marks and logs
are compared up to permutation inside a bracket (see ``logs_agree``).
"""
from __future__ import annotations

import builtins as _builtins

PIPE_CAUGHT = (AttributeError, NameError, LookupError, TypeError, ValueError)
EXISTS_CAUGHT = (AttributeError, LookupError, TypeError, NameError)


from vlib.tprog import indent_text  # noqa: E402


class InvalidExpression(Exception):
    """a syntactically invalid expression was reached (C19): args[0] = planted site number"""


class Structure:
    def __init__(self, value):
        self.value = value


class RScope:
    """Variable environment: a stack of local frames over a dict of globals over the bindings."""

    def __init__(self, bindings):
        self.frames = [dict(bindings)]
        self.globals = {}

    def push(self):
        f = {}
        self.frames.append(f)
        return f

    def pop(self):
        self.frames.pop()

    def lookup(self, name):
        for f in reversed(self.frames[1:]):
            if name in f:
                return f[name]
        if name in self.globals:
            return self.globals[name]
        if name in self.frames[0]:
            return self.frames[0][name]
        raise KeyError(name)

    def flatten(self):
        d = dict(self.frames[0])
        d.update(self.globals)
        for f in self.frames[1:]:
            d.update(f)
        return d

    def defined(self, name):
        try:
            self.lookup(name)
        except KeyError:
            return False
        return True


class _EnvMapping(dict):
    """locals mapping for eval(): template variables first, then the caller-supplied helpers; a miss
    falls through to Python's builtins (names resolved from template variables before builtins)."""

    def __init__(self, scope, helpers):
        dict.__init__(self)
        self.scope = scope
        self.helpers = helpers

    def __getitem__(self, name):
        try:
            return self.scope.lookup(name)
        except KeyError:
            pass
        if name in self.helpers:
            return self.helpers[name]
        raise KeyError(name)


def esc_text(s, quote=None):
    out = ''
    for ch in s:
        if ch == '&':
            out = out + '&amp;'
        elif ch == '<':
            out = out + '&lt;'
        elif ch == '>':
            out = out + '&gt;'
        elif quote is not None and ch == quote:
            out = out + ('&quot;' if quote == '"' else '&#39;')
        else:
            out = out + ch
    return out


class Ref:
    def __init__(self, default_marker, codes, helpers=None, log=None, case_first=False, options=None,
                 switch_first=False):
        self.options = dict(options or {})
        self.interp = [True]      # meta:interpolation stack (text, comments, CDATA of a subtree)
        # documentation: condition, repeat, case; implementation: case, condition, repeat.  The
        # property statement is silent, so harnesses accept either (two reference runs).
        self.case_first = case_first
        # documentation: define, switch, condition, repeat, case; implementation: switch innermost (evaluated
        # for every repetition).  With switch_first the value is computed once, before condition and repeat.
        self.switch_first = switch_first
        self._switch_value = {}
        self.default = default_marker
        self.codes = codes          # source -> compiled code object (prepared natively)
        self.helpers = dict(helpers or {})
        self.helpers.setdefault('nothing', None)
        self.log = log if log is not None else []
        self.marks = []             # (begin, end) index pairs of free-order brackets in self.log
        self.handler_calls = []
        self.repeat = RefRepeat()
        self.i18n = [{'domain': None, 'context': None, 'target': self.options.get('target_language')}]
        self.translate = self.helpers.get('__translate__')
        self.helpers.setdefault('repeat', self.repeat)

    # ---- expressions (TALES) ---------------------------------------------------------------
    def ev(self, e, scope, default_ok=False):
        if 'py' in e:
            code = self.codes[e['py']]
            if code is None:
                raise InvalidExpression(e.get('site'))
            # names: template variables first, then helpers, then Python builtins.  The environment is
            # passed as *globals* so that lambdas/comprehensions inside the expression see it too.
            g = {'__builtins__': _builtins}
            g.update(self.helpers)
            if default_ok:
                g['default'] = self.default
            g.update(scope.flatten())
            g.pop('__switch__', None)
            return eval(code, g, g)   # explicit locals: CrossHair's eval model would otherwise use frame locals
        if 'pipe' in e:
            alts = e['pipe']
            for i, a in enumerate(alts):
                if i == len(alts) - 1:
                    return self.ev(a, scope, default_ok)
                try:
                    return self.ev(a, scope, default_ok)
                except PIPE_CAUGHT:
                    continue
        if 'python' in e:
            return self.ev(e['python'], scope, default_ok)
        if 'attr' in e:
            # attribute access falls back to item lookup (docs: "Dictionary lookup as fallback after
            # attribute error"); a failing item lookup re-raises the AttributeError
            obj = self.ev(e['attr'][0], scope, default_ok)
            name = e['attr'][1]
            try:
                return getattr(obj, name)
            except AttributeError as exc:
                try:
                    get = obj.__getitem__
                except AttributeError:
                    raise exc
                try:
                    return get(name)
                except KeyError:
                    raise exc
        if 'not' in e:
            return not self.ev(e['not'], scope, default_ok)
        if 'exists' in e:
            try:
                self.ev(e['exists'], scope, default_ok)
            except EXISTS_CAUGHT:
                return 0
            return 1
        if 'structure' in e:
            return Structure(self.ev(e['structure'], scope, default_ok))
        if 'string' in e:
            out = ''
            for part in e['string']:
                if isinstance(part, str):
                    out = out + part
                else:
                    v = self.ev(part, scope, default_ok)
                    out = out + self.to_text(v, False)
            return out
        raise ValueError(e)

    def to_text(self, v, escape, quote=None):
        if v is None:
            return ''
        if isinstance(v, Structure):
            return self.to_text(v.value, False)
        if isinstance(v, bool) or type(v) in (int, float):
            return str(v)
        if isinstance(v, bytes):
            v = v.decode('utf-8')
        elif not isinstance(v, str):
            m = getattr(v, '__html__', None)
            if m is not None:
                return m()
            # neither text, number nor __html__: offered to the translation function (settings in force)
            conv = self.T(v) if (self.translate is not None and self.options.get('__recording_translate__')) else v
            v = str(v) if conv is v else conv
        elif hasattr(v, '__html__'):
            return v.__html__()
        return esc_text(v, quote) if escape else v

    # ---- free-order brackets ---------------------------------------------------------------
    def free_begin(self):
        return len(self.log)

    def free_end(self, begin):
        if len(self.log) - begin > 1:
            self.marks.append((begin, len(self.log)))

    # ---- elements ----------------------------------------------------------------------------
    def render(self, node, scope, out):
        if isinstance(node, str):
            out.append(node)
            return
        if 'interp' in node:
            if not self.interp[-1]:
                out.append('${' + self.expr_src(node['interp']) + '}')
                return
            v = self.ev(node['interp'], scope)
            out.append(self.to_text(v, True))
            return
        if 'dollar' in node:
            out.append(('$' if self.interp[-1] else '$$') * node['dollar'])
            return
        if 'code' in node:
            # a code block that defines functions: the names it defines are plain names from here on; its
            # own parameter names are nobody else's business
            g = {'__builtins__': _builtins}
            g.update(self.helpers)
            g.update(scope.flatten())
            exec(node['code'], g, g)
            for name in node.get('defines', ()):
                self.helpers[name] = g[name]
            return
        if 'comment' in node:
            kind = node.get('kind', '')
            if kind == '!':
                return                      # <!--! comments are dropped
            on = (self.interp[-1] and kind == '' and
                  self.options.get('enable_comment_interpolation', True))
            out.append('<!--' + ('?' if kind == '?' and not self.options.get(
                'enable_comment_interpolation', True) else ''))
            self.parts(node['comment'], scope, out, on, True, kind == '?')
            out.append('-->')
            return
        if 'cdata' in node:
            out.append('<![CDATA[')
            self.parts(node['cdata'], scope, out, self.interp[-1], False, False)
            out.append(']]>')
            return
        if node.get('indent') is not None:
            out.append('\n' + indent_text(node['indent']))
        if 'onerror' in node:
            mark = len(out)
            try:
                self.element(node, scope, out)
            except Exception as exc:
                del out[mark:]
                self.on_error(node, scope, out, exc)
            return
        self.element(node, scope, out)

    def expr_src(self, e):
        from vlib.tprog import expr_text
        return expr_text(e)

    def parts(self, parts, scope, out, on, escape, keep_dollars):
        """comment / CDATA content: interpolated when ``on``, else literal source text"""
        for part in parts:
            if isinstance(part, str):
                out.append(part)
            elif 'dollar' in part:
                # $$ yields a single $ wherever interpolation is in force
                out.append(('$' if on else '$$') * part['dollar'])
            elif on:
                out.append(self.to_text(self.ev(part['interp'], scope), escape))
            else:
                out.append('${' + self.expr_src(part['interp']) + '}')

    def on_error(self, node, scope, out, exc):
        self.handler_calls.append(exc)
        frame = scope.push()
        try:
            frame['error'] = ErrorView(exc)
            mode, e = node['onerror']
            v = self.ev(e, scope)
            if node.get('i18n_translate') == '' and v is not None:
                v = self.T(v, None, v)          # the fallback is the element's content: offered for translation
            omit = node.get('omit') == ''
            if 'omit' in node and not omit:
                omit = bool(self.ev(node['omit'], scope))      # a computed omit-tag decides for the fallback too
            if not omit:
                out.append('<' + node['tag'])
                targeted = [a.lower() for a, _ in node.get('attributes', []) if a]
                for n, val in node.get('static', []):
                    # static attributes only: not interpolated, not a target of tal:attributes
                    if isinstance(val, str) and n.lower() not in targeted:
                        out.append(' %s="%s"' % (n, val))
                out.append('>')
            out.append(self.to_text(v if mode != 'structure' else Structure(v), True))
            if not omit:
                out.append('</' + node['tag'] + '>')
        finally:
            scope.pop()

    def element(self, node, scope, out):
        frame = scope.push()
        try:
            # 1. definitions first
            for sc, names, e in node.get('define', []):
              vs = self.ev(e, scope)
              if not isinstance(names, str):
                  vs = tuple(vs)
                  if len(vs) != len(names):
                      raise ValueError('unpack')
              for name, v in ([(names, vs)] if isinstance(names, str) else zip(names, vs)):
                if sc == 'global':
                    scope.globals[name] = v
                    # a global definition is also the visible value from now on
                    for f in scope.frames[1:]:
                        f.pop(name, None)
                else:
                    frame[name] = v
            # 2. guards.  case/condition share a free bracket (docs: condition, repeat, case;
            #    implementation: case, condition, repeat) -- generators never put case and repeat on
            #    one element.
            if self.switch_first and 'switch' in node:
                self._switch_value[id(node)] = self.ev(node['switch'], scope)
            guards = ['condition', 'case'] if not self.case_first else ['case', 'condition']
            for g in guards:
                if g == 'condition' and 'condition' in node:
                    if not bool(self.ev(node['condition'], scope)):
                        return
                if g == 'case' and 'case' in node:
                    sw = self.current_switch(scope)
                    if sw is None or sw['done']:
                        return
                    cv = self.ev(node['case'], scope, default_ok=True)
                    if not (cv == sw['value'] or cv is self.default):
                        return
                    sw['done'] = True
            if 'repeat' in node:
                name, e = node['repeat']
                it = self.ev(e, scope)
                items = list(it) if it is not None else []
                n = len(items)
                sep = ('\n' + indent_text(node['indent'])) if node.get('indent') is not None else ''
                rframe = scope.push()
                key = name if isinstance(name, str) else tuple(name)
                # repeat[name] belongs to this loop while it runs; an enclosing loop over the same name gets
                # its own entry back when this one is finished
                outer_item = self.repeat.items.get(key)
                try:
                    for i, item in enumerate(items):
                        if isinstance(name, str):
                            rframe[name] = item
                        else:
                            parts = tuple(item)
                            if len(parts) != len(name):
                                raise ValueError('unpack')
                            for nm, pv in zip(name, parts):
                                rframe[nm] = pv
                        self.repeat.items[key] = RefRepeatItem(i, n)
                        self.once(node, scope, out)
                        if i < n - 1:
                            out.append(sep)
                finally:
                    scope.pop()
                    if outer_item is not None:
                        self.repeat.items[key] = outer_item
            else:
                self.once(node, scope, out)
        finally:
            scope.pop()

    def current_switch(self, scope):
        for f in reversed(scope.frames):
            if '__switch__' in f:
                return f['__switch__']
        return None

    def once(self, node, scope, out):
        sw = node.get('interp_switch')
        if sw:
            self.interp.append(sw in ('on', 'true'))
        try:
            self.once_(node, scope, out)
        finally:
            if sw:
                self.interp.pop()

    def once_(self, node, scope, out):
        pushed = False
        if 'i18n_domain' in node or 'i18n_context' in node or 'i18n_target' in node:
            st = dict(self.i18n[-1])
            if 'i18n_domain' in node:
                st['domain'] = node['i18n_domain']
            if 'i18n_context' in node:
                st['context'] = node['i18n_context']
            if 'i18n_target' in node:
                # docs: "If the value is ``default``, the language negotiation services will be used" -- the
                # language the render call asked for (None: negotiate), not that of an enclosing i18n:target
                st['target'] = eval(self.codes[node['i18n_target']], {'__builtins__': _builtins},
                                    dict(scope.flatten(), default=self.i18n[0]['target']))
            self.i18n.append(st)
            pushed = True
        try:
            self.once__(node, scope, out)
        finally:
            if pushed:
                self.i18n.pop()

    def T(self, msgid, mapping=None, default=None):
        st = self.i18n[-1]
        return self.translate(msgid, domain=st['domain'], mapping=mapping, context=st['context'],
                              target_language=st['target'], default=default)

    def translate_children(self, node, scope):
        """content of an i18n:translate element -> (normalised text with ${name} placeholders, mapping)"""
        buf = []
        mapping = {}
        for c in node.get('children') or []:
            if isinstance(c, dict) and c.get('i18n_name'):
                sub = []
                self.render(c, scope, sub)
                text = ''
                for x in sub:
                    text = text + x
                mapping[c['i18n_name']] = text
                buf.append('${%s}' % c['i18n_name'])
            else:
                self.render(c, scope, buf)
        text = ''
        for x in buf:
            text = text + x
        return collapse_ws(text), mapping

    def once__(self, node, scope, out):
        frame = scope.push()
        try:
            if 'switch' in node:
                if self.switch_first and id(node) in self._switch_value:
                    frame['__switch__'] = {'value': self._switch_value[id(node)], 'done': False}
                else:
                    frame['__switch__'] = {'value': self.ev(node['switch'], scope), 'done': False}
            if 'replace' in node:
                mode, e = node['replace']
                v = self.ev(e, scope, default_ok=True)
                if v is not self.default:
                    if v is not None:
                        out.append(self.to_text(Structure(v) if mode == 'structure' else v, True))
                    return
            fb = self.free_begin()
            content = None
            keep_children = True
            if 'content' in node:
                mode, e = node['content']
                v = self.ev(e, scope, default_ok=True)
                if v is not self.default:
                    keep_children = False
                    if node.get('i18n_translate') == '' and v is not None:
                        v = self.T(v, None, v)          # dynamic content offered to the translation function
                    content = '' if v is None else self.to_text(
                        Structure(v) if mode == 'structure' else v, True)
            omit = False
            if 'omit' in node:
                omit = True if node['omit'] == '' else bool(self.ev(node['omit'], scope))
            start = ''
            if not omit:
                start = self.start_tag(node, scope)
            self.free_end(fb)
            out.append(start)
            if keep_children and 'i18n_translate' in node:
                text, mapping = self.translate_children(node, scope)
                explicit = node['i18n_translate']
                if explicit:
                    out.append(self.T(explicit, mapping or None, text))
                elif text:
                    out.append(self.T(text, mapping or None, text))
            elif keep_children:
                for c in node.get('children') or []:
                    self.render(c, scope, out)
            else:
                out.append(content)
            if not omit:
                if node.get('children') is None and 'content' not in node:
                    pass  # self-closing: start tag already carries ' />'
                else:
                    if node.get('close_indent') is not None and keep_children:
                        out.append('\n' + indent_text(node['close_indent']))
                    out.append('</' + node['tag'] + '>')
        finally:
            scope.pop()

    def start_tag(self, node, scope):
        attrs = []
        for n, v in node.get('static', []):                        # name, text, static?
            if not isinstance(v, str):
                text = ''
                for part in v:
                    if isinstance(part, str):
                        text = text + part
                    elif 'dollar' in part:
                        text = text + '$' * part['dollar']
                    else:
                        text = text + self.to_text(self.ev(part['interp'], scope), True, '"')
                v = text
            attrs.append([n, v, True])
        entries = []
        for n, e in node.get('attributes', []):
            v = self.ev(e, scope, default_ok=True)
            if n is None:
                # attribute dictionary: one entry per key, in the dictionary's order
                for k in v:
                    entries.append((k, v[k]))
            else:
                entries.append((n, v))
        for n, v in entries:
            idx = None
            for i, a in enumerate(attrs):
                if a is not None and a[0].lower() == n.lower():
                    idx = i
            if v is self.default:
                continue                      # keep the static text, or nothing
            if n in (self.options.get('boolean_attributes') or ()):
                # configured as boolean: name="name" for true values, absent for false ones
                v = n if v else None
            if v is None:
                if idx is not None:
                    attrs[idx] = None
                continue
            text = self.to_text(v, True, '"')
            if idx is not None:
                attrs[idx] = [attrs[idx][0] if attrs[idx] else n, text, False]
            else:
                attrs.append([n, text, False])
        i18n_attrs = parse_i18n_attributes(node.get('i18n_attributes'))
        implicit = self.options.get('implicit_i18n_attributes') or ()
        statics = {n: v for n, v in node.get('static', [])}
        # a name listed in i18n:attributes that the element has neither statically nor through tal:attributes is
        # appended (statement order) with its own name as text (what tal.prepare_attributes establishes)
        present = [n.lower() for n, _ in node.get('static', [])] + [n.lower() for n, _ in entries]
        for nm in i18n_attrs:
            if nm.lower() not in present:
                attrs.append([nm, nm, True])
                present.append(nm.lower())
        for a in attrs:
            if a is None:
                continue
            name = a[0]
            if name in i18n_attrs:
                if not i18n_attrs[name] and a[1] == '':
                    continue                   # nothing to translate (empty text, no explicit id)
                a[1] = self.T(i18n_attrs[name] or a[1], None, a[1])
            elif name.lower() in implicit and a[2]:
                raw = statics.get(name)
                if isinstance(raw, str):
                    a[1] = self.T(raw, None, raw)
                else:
                    # interpolated text: translated with a mapping when every expression is a plain name
                    names = [p['interp'].get('py') for p in raw if not isinstance(p, str) and 'interp' in p]
                    if all(nm is not None and nm.isidentifier() for nm in names):
                        msgid = ''
                        mapping = {}
                        for p in raw:
                            if isinstance(p, str):
                                msgid = msgid + p
                            elif 'interp' in p:
                                nm = p['interp']['py']
                                msgid = msgid + '${%s}' % nm
                                mapping[nm] = self.to_text(self.ev(p['interp'], scope), True, '"')
                        a[1] = self.T(msgid, mapping, None)
        s = '<' + node['tag']
        for a in attrs:
            if a is not None:
                s = s + ' %s="%s"' % (a[0], a[1])
        if node.get('children') is None and 'content' not in node:
            s = s + ' />'
        else:
            s = s + '>'
        return s


def collapse_ws(text):
    out = ''
    prev_space = True
    for ch in text:
        if ch in ' \t\n\r\x0b\x0c':
            if not prev_space:
                out = out + ' '
            prev_space = True
        else:
            out = out + ch
            prev_space = False
    if out.endswith(' '):
        out = out[:-1]
    return out


def parse_i18n_attributes(spec):
    d = {}
    if not spec:
        return d
    for part in spec.split(';'):
        words = part.split()
        if len(words) == 2:
            d[words[0]] = words[1]
        elif len(words) == 1:
            d[words[0]] = None
    return d


class RefRepeatItem:
    """repeat variable per docs/reference.rst 'Repeat variables' (closed forms, own implementation)"""

    def __init__(self, pos, length):
        self.index = pos
        self.number = pos + 1
        self.even = pos % 2 == 0
        self.odd = pos % 2 == 1
        self.parity = 'odd' if pos % 2 == 1 else 'even'
        self.start = pos == 0
        self.end = pos == length - 1
        self.length = length

    @property
    def letter(self):
        # documented for the first 26 positions without ambiguity
        return 'abcdefghijklmnopqrstuvwxyz'[self.index] if self.index < 26 else '?'

    @property
    def Letter(self):
        return self.letter.upper()

    @property
    def Roman(self):
        n = self.number
        ones = ('', 'I', 'II', 'III', 'IV', 'V', 'VI', 'VII', 'VIII', 'IX')
        tens = ('', 'X', 'XX', 'XXX', 'XL', 'L', 'LX', 'LXX', 'LXXX', 'XC')
        hund = ('', 'C', 'CC', 'CCC', 'CD', 'D', 'DC', 'DCC', 'DCCC', 'CM')
        return 'M' * (n // 1000) + hund[n // 100 % 10] + tens[n // 10 % 10] + ones[n % 10]

    @property
    def roman(self):
        return self.Roman.lower()


class RefRepeat:
    def __init__(self):
        self.items = {}

    def __getattr__(self, name):
        try:
            return self.__dict__['items'][name]
        except KeyError:
            raise AttributeError(name)

    def __getitem__(self, name):
        return self.items[name]


class ErrorView:
    def __init__(self, exc):
        self.type = type(exc)
        self.value = exc


def logs_agree(engine_log, ref_log, marks):
    """equal up to permutation inside the free brackets of the reference log"""
    if len(engine_log) != len(ref_log):
        return False
    covered = [False] * len(ref_log)
    # process outermost-last: marks may nest; comparing sorted slices of the widest brackets suffices
    for b, e in marks:
        if sorted(engine_log[b:e]) != sorted(ref_log[b:e]):
            return False
        for i in range(b, e):
            covered[i] = True
    for i in range(len(ref_log)):
        if not covered[i] and engine_log[i] != ref_log[i]:
            return False
    return True
