"""Library-mode CrossHair driver (Engine X/G/S back end) -- DESIGN.md 3.1, 3.5.

A *job* is (harness module, harness function, CFG dict).  The harness function lives in a real .py
file, carries a PEP316 contract (``pre:`` bounds on its symbolic parameters, ``post: _``) and
returns True iff the property holds for its arguments; what it checks is parameterised by the
module-level dict ``CFG`` which the driver fills per job (shape / program / mutant / negation).

Each batch of jobs runs in a forked child (hard wall-clock limit, isolation of in-memory mutants).
Verdicts:
  CONFIRMED  -- CrossHair explored every feasible path and the post-condition held (solver verdict
                over all argument values inside the pre-condition);
  REFUTED    -- counter-example; the arguments are parsed from the message and the harness is
                re-run *natively* (fresh process, no CrossHair, no plugin); only a reproduced
                failure counts (=> VIOLATION), otherwise the job is a harness error;
  UNKNOWN    -- timeout / cannot confirm / precondition unsatisfiable: inconclusive, never a pass.
"""
from __future__ import annotations

import collections
import importlib
import json
import os
import pickle
import re
import signal
import subprocess
import sys
import time
import traceback

ROOT = os.path.dirname(os.path.dirname(os.path.abspath(__file__)))
WORKERS = int(os.environ.get('VERIF_WORKERS', '14'))

CONFIRMED, REFUTED, UNKNOWN, ERROR = 'CONFIRMED', 'REFUTED', 'UNKNOWN', 'ERROR'


# ------------------------------------------------------------------------------------------------
# child side
# ------------------------------------------------------------------------------------------------
SOLVER = {'checks': 0, 'time': 0.0, 'unknown': 0}
_loaded = False


def preload():
    """Import CrossHair, the plugin and wrap z3.Solver.check (once, in the parent before forking)."""
    global _loaded
    if _loaded:
        return
    import crosshair.core_and_libs  # noqa: F401  registers library models
    import z3
    from vlib import chsym  # noqa: F401

    _orig = z3.Solver.check

    def _check(self, *a):
        t = time.perf_counter()
        r = _orig(self, *a)
        SOLVER['time'] += time.perf_counter() - t
        SOLVER['checks'] += 1
        if str(r) == 'unknown':
            SOLVER['unknown'] += 1
        return r

    z3.Solver.check = _check
    _loaded = True


_CALL_RE = re.compile(r'when calling (\w+)\((.*)\)(?: \(which returns|$)', re.S)


def parse_call_args(message, fn_name):
    """Extract (args, kwargs) from a CrossHair counter-example message."""
    m = _CALL_RE.search(message)
    if m is None:
        # messages end in "(which returns ...)" or nothing; fall back on the last ')'
        i = message.find('when calling ' + fn_name + '(')
        if i < 0:
            return None
        rest = message[i + len('when calling ' + fn_name + '('):]
        j = rest.rfind(') (which returns')
        if j < 0:
            j = rest.rfind(')')
        argsrc = rest[:j]
    else:
        argsrc = m.group(2)
        # the greedy group may have swallowed " (which returns ...": cut there
        k = argsrc.find(') (which returns')
        if k >= 0:
            argsrc = argsrc[:k]
    try:
        a, k = eval('__f(' + argsrc + ')', {'__f': lambda *a, **k: (a, k), 'None': None,
                                            'True': True, 'False': False,
                                            'float': float})
    except Exception:
        return None
    return list(a), k


def run_one(job):
    """Analyse one job in this process.  Returns a result dict."""
    from crosshair.core import analyze_function, run_checkables
    from crosshair.options import AnalysisOptionSet
    from crosshair.statespace import MessageType

    t0 = time.perf_counter()
    for k in SOLVER:
        SOLVER[k] = 0
    res = {'id': job['id'], 'family': job['family'], 'fn': job['fn'], 'cfg': job['cfg'],
           'expect': job.get('expect', 'confirm')}
    try:
        mod = importlib.import_module(job['module'])
        mod.CFG.clear()
        mod.CFG.update(job['cfg'])
        if hasattr(mod, 'prepare'):
            mod.prepare(mod.CFG)
        fn = getattr(mod, job['fn'])
        stats = collections.Counter()
        to = float(job.get('timeout', 60))
        opts = AnalysisOptionSet(per_condition_timeout=to, per_path_timeout=max(to / 2.0, 1.0),
                                 report_all=True, stats=stats)
        msgs = run_checkables(analyze_function(fn, opts))
        states = [m.state for m in msgs]
        res['messages'] = [(m.state.name, m.message[:2000]) for m in msgs]
        res['paths'] = int(stats.get('num_paths', 0))
        bad = [m for m in msgs if m.state in (MessageType.POST_FAIL, MessageType.EXEC_ERR,
                                              MessageType.POST_ERR)]
        if bad:
            res['verdict'] = REFUTED
            res['cex_message'] = bad[0].message[:4000]
            pa = parse_call_args(bad[0].message, job['fn'])
            res['cex_args'] = pa
        elif states and all(s == MessageType.CONFIRMED for s in states):
            res['verdict'] = CONFIRMED
        elif any(s in (MessageType.SYNTAX_ERR, MessageType.IMPORT_ERR) for s in states) \
                or not states:
            res['verdict'] = ERROR
        else:
            res['verdict'] = UNKNOWN
    except BaseException as exc:  # harness/driver error
        if isinstance(exc, (KeyboardInterrupt, SystemExit)):
            raise
        res['verdict'] = ERROR
        res['messages'] = [('DRIVER_ERR', ''.join(traceback.format_exception(exc))[-3000:])]
    res['solver'] = dict(SOLVER)
    res['wall'] = round(time.perf_counter() - t0, 3)
    return res


def _child(batch, wfd):
    try:
        out = []
        for job in batch:
            out.append(run_one(job))
        data = pickle.dumps(out)
    except BaseException as exc:
        data = pickle.dumps([{'id': j['id'], 'family': j['family'], 'fn': j['fn'],
                              'cfg': j['cfg'], 'verdict': ERROR, 'expect': j.get('expect'),
                              'messages': [('CHILD_ERR', repr(exc))], 'solver': {}, 'wall': 0,
                              'paths': 0} for j in batch])
    with os.fdopen(wfd, 'wb') as f:
        f.write(data)
    os._exit(0)


# ------------------------------------------------------------------------------------------------
# parent side
# ------------------------------------------------------------------------------------------------
def run_jobs(jobs, batch_size=1, workers=None, progress=None):
    """Run jobs in forked children, at most ``workers`` at a time.  Returns results by job id."""
    preload()
    workers = workers or WORKERS
    for i, j in enumerate(jobs):
        j.setdefault('id', i)
    # jobs that patch code in memory get a child of their own
    batches = []
    cur = []
    for j in jobs:
        if j['cfg'].get('mutant') or batch_size <= 1:
            batches.append([j])
            continue
        cur.append(j)
        if len(cur) >= batch_size:
            batches.append(cur)
            cur = []
    if cur:
        batches.append(cur)
    import select
    pending = list(reversed(batches))
    running = {}  # pid -> (rfd, batch, deadline)
    bufs = {}
    results = {}
    done_batches = 0

    def fail(batch, verdict, tag, text):
        for j in batch:
            results[j['id']] = {'id': j['id'], 'family': j['family'], 'fn': j['fn'],
                                'cfg': j['cfg'], 'verdict': verdict,
                                'expect': j.get('expect', 'confirm'),
                                'messages': [(tag, text)], 'solver': {}, 'wall': 0, 'paths': 0}

    while pending or running:
        while pending and len(running) < workers:
            batch = pending.pop()
            rfd, wfd = os.pipe()
            sys.stdout.flush()
            sys.stderr.flush()
            pid = os.fork()
            if pid == 0:
                os.close(rfd)
                try:
                    _child(batch, wfd)
                finally:
                    os._exit(3)
            os.close(wfd)
            os.set_blocking(rfd, False)
            budget = sum(float(j.get('timeout', 60)) for j in batch) * 1.5 + 30
            running[pid] = (rfd, batch, time.time() + budget)
            bufs[pid] = []
        rl = [v[0] for v in running.values()]
        if rl:
            select.select(rl, [], [], 0.05)
        for pid in list(running):
            rfd, batch, deadline = running[pid]
            eof = False
            while True:
                try:
                    chunk = os.read(rfd, 1 << 20)
                except BlockingIOError:
                    break
                if not chunk:
                    eof = True
                    break
                bufs[pid].append(chunk)
            if not eof:
                if time.time() > deadline:
                    os.kill(pid, signal.SIGKILL)
                    os.waitpid(pid, 0)
                    os.close(rfd)
                    fail(batch, UNKNOWN, 'KILLED', 'wall-clock limit')
                    del running[pid]
                    done_batches += 1
                continue
            os.close(rfd)
            _, status = os.waitpid(pid, 0)
            del running[pid]
            done_batches += 1
            try:
                out = pickle.loads(b''.join(bufs.pop(pid)))
                for o in out:
                    results[o['id']] = o
            except Exception:
                fail(batch, ERROR, 'CHILD_DIED', 'no result (status %r)' % (status,))
            if progress:
                progress(done_batches, len(batches))
    return results


# ------------------------------------------------------------------------------------------------
# native replay (fresh interpreter: no CrossHair, no plugin)
# ------------------------------------------------------------------------------------------------
_REPLAY_SNIPPET = r'''
import sys, json, importlib, traceback
sys.path.insert(0, %(root)r)
job = json.loads(sys.stdin.read())
mod = importlib.import_module(job['module'])
mod.CFG.clear(); mod.CFG.update(job['cfg'])
if hasattr(mod, 'prepare'):
    mod.prepare(mod.CFG)
fn = getattr(mod, job['fn'])
try:
    r = fn(*job['args'], **job.get('kwargs', {}))
    out = {'returned': bool(r), 'exc': None}
    if hasattr(mod, 'explain'):
        try:
            out['detail'] = mod.explain(mod.CFG, *job['args'])
        except Exception as e:
            out['detail'] = 'explain failed: %%r' %% (e,)
except Exception as e:
    out = {'returned': None, 'exc': ''.join(traceback.format_exception_only(type(e), e))[-1500:]}
print('\n@@REPLAY@@' + json.dumps(out, default=repr))
'''


def native_replay(module, fn, cfg, args, kwargs=None, timeout=120):
    """Run harness natively in a fresh process.  Returns dict(returned, exc, detail) or None."""
    job = {'module': module, 'fn': fn, 'cfg': cfg, 'args': args, 'kwargs': kwargs or {}}
    env = dict(os.environ)
    env['PYTHONHASHSEED'] = '0'
    env.pop('VERIF_UNDER_CROSSHAIR', None)
    try:
        p = subprocess.run([sys.executable, '-c', _REPLAY_SNIPPET % {'root': ROOT}],
                           input=json.dumps(job), capture_output=True, text=True,
                           timeout=timeout, env=env, cwd=ROOT)
    except subprocess.TimeoutExpired:
        return None
    m = re.search(r'@@REPLAY@@(.*)', p.stdout)
    if not m:
        return {'returned': None, 'exc': 'replay process failed: ' + p.stderr[-1500:],
                'harness_error': True}
    return json.loads(m.group(1))
