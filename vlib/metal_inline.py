"""Hand-inlining of METAL (generator side of the C09 metamorphic check): given the macro definitions and
a caller tree, produce the METAL-free tree that the METAL semantics prescribe:

  use-macro   -> the macro's defining element, every define-slot region of name s replaced by the caller's
                 fill-slot element of that name (if any), default content otherwise; unknown fill-slots and the
                 caller element's other children are discarded; 'macroname' bound to the name used (the
                 last '/'-separated segment of the use-macro expression);
  extend-macro-> the base macro with the extender's fillers applied; a define-slot re-offered inside an
                 extender's filler can in turn be filled by the caller;
  define-macro-> rendered in place like an ordinary element.
"""
from __future__ import annotations

import copy

METAL_KEYS = ('define_macro', 'use_macro', 'extend_macro', 'fill_slot', 'define_slot', 'use_name', 'extend_name')


def strip(node):
    n = {k: v for k, v in node.items() if k not in METAL_KEYS}
    return n


def collect_macros(tree, acc=None):
    acc = {} if acc is None else acc
    if isinstance(tree, dict) and 'tag' in tree:
        if tree.get('define_macro'):
            acc[tree['define_macro']] = tree
        for c in tree.get('children') or []:
            collect_macros(c, acc)
    return acc


def fills_of(node):
    out = {}
    def walk(n):
        if isinstance(n, dict) and 'tag' in n:
            if n.get('fill_slot'):
                out[n['fill_slot']] = n
                return                    # nested fill-slots belong to nested uses
            if n.get('use_macro') or n.get('extend_macro'):
                return
            for c in n.get('children') or []:
                walk(c)
    for c in node.get('children') or []:
        walk(c)
    return out


def inline(node, macros):
    """-> list of METAL-free nodes"""
    if not (isinstance(node, dict) and 'tag' in node):
        return [node]
    if node.get('use_macro') and not node.get('define_macro'):
        name = node['use_name']
        fills = {k: v for k, v in fills_of(node).items()}
        body = expand(name, fills, macros)
        wrapper = {'tag': 'tal:block', 'children': body,
                   'define': list(node.get('define', [])) + [['local', 'macroname', {'py': repr(node['use_macro'].rsplit('/', 1)[-1])}]]}
        for k in ('condition', 'indent'):
            if k in node:
                wrapper[k] = node[k]
        return [wrapper]
    n = strip(node)
    if node.get('define_macro') and node.get('extend_macro'):
        # an extending macro rendered in place = the base with its fillers
        body = expand(node['define_macro'], {}, macros)
        return body
    if node.get('children') is not None:
        kids = []
        for c in node['children']:
            kids.extend(inline(c, macros))
        n['children'] = kids
    return [n]


def subst(node, fills, macros):
    """replace define-slot regions; inline nested uses"""
    if not (isinstance(node, dict) and 'tag' in node):
        return [node]
    if node.get('define_slot'):
        s = node['define_slot']
        if s in fills:
            filler = fills[s]
            out = strip(filler)
            if filler.get('children') is not None:
                kids = []
                for c in filler['children']:
                    kids.extend(inline(c, macros))
                out['children'] = kids
            # statements on the define-slot element other than the slot itself still guard the region
            return [out]
    if node.get('use_macro') and not node.get('define_macro'):
        return inline(node, macros)
    n = strip(node)
    if node.get('children') is not None:
        kids = []
        for c in node['children']:
            kids.extend(subst(c, fills, macros))
        n['children'] = kids
    return [n]


def expand(name, fills, macros):
    m = macros[name]
    if m.get('extend_macro'):
        ext_fills = {}
        for slot, filler in fills_of(m).items():
            f = copy.deepcopy(filler)
            # caller's fills go into slots re-offered inside the extender's filler
            kids = []
            for c in f.get('children') or []:
                kids.extend(subst(c, fills, macros))
            f['children'] = kids
            ext_fills[slot] = f
        for slot, filler in fills.items():
            ext_fills.setdefault(slot, filler)
        return expand(m['extend_name'], ext_fills, macros)
    return subst(m, fills, macros)
