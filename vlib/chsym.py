"""CrossHair plugin that keeps chameleon's string idioms symbolic.

Imported by vlib.xdriver *before* any analysis runs (library mode) -- see DESIGN.md 3.1.

What is modelled (trusted base) and what is real:
  * ``Token.__new__`` is modelled (three attribute assignments on a symbolic string proxy);
    every other ``Token`` method is the *real* function object taken from ``Token.__dict__``
    at import time, i.e. from the current working tree.
  * unbound ``str.__getitem__/__add__/__eq__/split/...`` dispatch to CrossHair's symbolic
    string when ``self`` is symbolic (CrossHair patches bound calls only).
  * ``str % args`` for ``%s``/``%d``/``%%``-only formats becomes concatenation of ``str(arg)``.
  * ``crosshair.libimpl.relib._Match`` gets ``re.Match``-faithful ``groupdict/span/start/end``.
"""
from __future__ import annotations

import re as _re

from crosshair import core as _core
from crosshair.core import deep_realize
from crosshair.core import realize
from crosshair.core import register_patch
from crosshair.libimpl import relib as _relib
from crosshair.libimpl.builtinslib import AnySymbolicStr
from crosshair.libimpl.builtinslib import LazyIntSymbolicStr
from crosshair.tracers import NoTracing
from crosshair.tracers import ResumedTracing  # noqa: F401

import chameleon.tokenize as _tk

_RealToken = _tk.Token

GRAFTED = ('__getitem__', '__add__', '__eq__', '__hash__', 'replace', 'split',
           'strip', 'lstrip', 'rstrip', 'location')


class SymToken(LazyIntSymbolicStr):
    """Symbolic stand-in for chameleon.tokenize.Token (a str subclass)."""

    def __ch_pytype__(self):
        return _RealToken

    def __ch_realize__(self):
        s = LazyIntSymbolicStr.__ch_realize__(self)
        return _RealToken(s, realize(self.pos), deep_realize(self.source),
                          deep_realize(self.filename))


def graft():
    """(Re-)graft the real Token methods -- called again after in-memory mutants."""
    for _name in GRAFTED:
        if _name in _RealToken.__dict__:
            setattr(SymToken, _name, _RealToken.__dict__[_name])


graft()


def _make_token(string, pos=0, source=None, filename=None):
    with NoTracing():
        if isinstance(string, LazyIntSymbolicStr):
            inst = SymToken(string._codepoints)
            inst.pos = pos
            inst.source = source
            inst.filename = filename or ""
            return inst
        if isinstance(string, AnySymbolicStr):
            string = realize(string)
        return _RealToken(string, pos, source, filename)


register_patch(_RealToken, _make_token)


def _sym_or(orig, symname):
    def patched(self, *a, **kw):
        with NoTracing():
            sym = isinstance(self, AnySymbolicStr)
        if sym:
            return getattr(LazyIntSymbolicStr, symname)(self, *a, **kw)
        with NoTracing():
            if any(isinstance(x, AnySymbolicStr) for x in a):
                selfs = LazyIntSymbolicStr(list(map(ord, self)))
            else:
                return orig(self, *a, **kw)
        return getattr(LazyIntSymbolicStr, symname)(selfs, *a, **kw)
    return patched


for _n in ('__getitem__', '__add__', '__eq__', 'split', 'replace', 'lstrip', 'rstrip',
           'strip', 'startswith', 'endswith', 'find', 'rfind', 'count', 'lower',
           '__contains__', '__len__', 'join'):
    _fn = getattr(str, _n)
    if _n in ('join',):
        continue
    _core._PATCH_REGISTRATIONS[_fn] = _sym_or(_fn, _n)


def _str_hash(self):
    return hash(realize(self))


_core._PATCH_REGISTRATIONS[str.__hash__] = _str_hash


# ---- %-formatting with symbolic args (only %s, %d, %%) -------------------------------------
_SIMPLE_ARG = (str, int, float, type(None), bool)


def _str_mod(self, other):
    with NoTracing():
        if isinstance(self, AnySymbolicStr):
            self = realize(self)
        if not isinstance(self, str):
            raise TypeError
        args = other if isinstance(other, tuple) else (other,)
        simple = not _re.search(r'%[^sd%]', self) and not self.endswith('%') or \
            (not _re.search(r'%[^sd%]', self.replace('%%', '')) and
             not self.replace('%%', '').endswith('%'))
        anysym = any(type(a) not in _SIMPLE_ARG for a in args)
        if isinstance(other, dict) or not simple or not anysym:
            return str.__mod__(self, deep_realize(other))
        pieces = _re.split(r'(%[sd%])', self)
    out = ''
    i = 0
    for p in pieces:
        if p == '%%':
            out = out + '%'
        elif p in ('%s', '%d'):
            if i >= len(args):
                raise TypeError('not enough arguments for format string')
            out = out + str(args[i])
            i += 1
        else:
            out = out + p
    if i != len(args):
        raise TypeError('not all arguments converted during string formatting')
    return out


_core._PATCH_REGISTRATIONS[str.__mod__] = _str_mod


# ---- make CrossHair's symbolic Match faithful to re.Match for named groups ------------------
def _gidx(self, g):
    return self.re.groupindex[g] if isinstance(g, str) else g


def _m_groupdict(self, default=None):
    out = {}
    for name, idx in self.re.groupindex.items():
        out[name] = default if self._groups[idx] is None else self.group(idx)
    return out


def _m_span(self, g=0):
    s = self._groups[_gidx(self, g)]
    return (-1, -1) if s is None else s


def _m_start(self, g=0):
    return _m_span(self, g)[0]


def _m_end(self, g=0):
    return _m_span(self, g)[1]


_relib._Match.groupdict = _m_groupdict
_relib._Match.span = _m_span
_relib._Match.start = _m_start
_relib._Match.end = _m_end
