"""CrossHair plugin that keeps chameleon's string idioms symbolic.

Imported by vlib.xdriver *before* any analysis runs (library mode) -- see DESIGN.md 3.1.

What is modelled (trusted base) and what is real:
  * ``Token.__new__`` is modelled (three attribute assignments on a symbolic string proxy);
    every other ``Token`` method is the *real* function object taken from ``Token.__dict__``
    at import time, i.e. from the current working tree.
  * unbound ``str.__getitem__/__add__/__eq__/split/...`` dispatch to CrossHair's symbolic
    string when ``self`` is symbolic (CrossHair patches bound calls only).
  * ``str % args`` for ``%s``/``%d``/``%%``-only formats becomes concatenation of ``str(arg)``.
  * ``crosshair.libimpl.relib._Match`` gets ``re.Match``-faithful ``groupdict/span/start/end``.
"""
from __future__ import annotations

import re as _re

from crosshair import core as _core
from crosshair.core import deep_realize
from crosshair.core import realize
from crosshair.core import register_patch
from crosshair.libimpl import relib as _relib
from crosshair.libimpl.builtinslib import AnySymbolicStr
from crosshair.libimpl.builtinslib import LazyIntSymbolicStr
from crosshair.tracers import NoTracing
from crosshair.tracers import ResumedTracing  # noqa: F401
from crosshair.tracers import is_tracing

import chameleon.tokenize as _tk

_RealToken = _tk.Token
_orig_str_hash = str.__hash__

GRAFTED = ('__getitem__', '__add__', '__eq__', '__hash__', 'replace', 'split',
           'strip', 'lstrip', 'rstrip', 'location')


class SymToken(LazyIntSymbolicStr):
    """Symbolic stand-in for chameleon.tokenize.Token (a str subclass)."""

    def __ch_pytype__(self):
        return _RealToken

    def __ch_realize__(self):
        # only the token text is realised; ``source`` stays whatever it is (possibly symbolic), so
        # that hashing an attribute name does not concretise unrelated characters of the document
        s = LazyIntSymbolicStr.__ch_realize__(self)
        return _RealToken(s, realize(self.pos), self.source, realize(self.filename))


def graft():
    """(Re-)graft the real Token methods -- called again after in-memory mutants."""
    for _name in GRAFTED:
        if _name in _RealToken.__dict__:
            setattr(SymToken, _name, _RealToken.__dict__[_name])
    real_hash = _RealToken.__dict__.get('__hash__')
    real_eq = _RealToken.__dict__.get('__eq__')

    def __hash__(self):
        if not is_tracing():   # called from CrossHair internals / C code with tracing off
            return _orig_str_hash(LazyIntSymbolicStr.__ch_realize__(self))
        return real_hash(self)

    def __eq__(self, other):
        if not is_tracing():
            o = realize(other)
            if not isinstance(o, str):
                return NotImplemented
            return str.__eq__(LazyIntSymbolicStr.__ch_realize__(self), str(o))
        return real_eq(self, other)
    if real_hash is not None:
        SymToken.__hash__ = __hash__
    if real_eq is not None:
        SymToken.__eq__ = __eq__


graft()


def _make_token(string, pos=0, source=None, filename=None):
    with NoTracing():
        if isinstance(string, LazyIntSymbolicStr):
            inst = SymToken(string._codepoints)
            inst.pos = pos
            inst.source = source
            inst.filename = filename or ""
            return inst
        if isinstance(string, AnySymbolicStr):
            string = realize(string)
        return _RealToken(string, pos, source, filename)


register_patch(_RealToken, _make_token)


def _sym_or(orig, symname):
    def patched(self, *a, **kw):
        with NoTracing():
            sym = isinstance(self, AnySymbolicStr)
        if sym:
            return getattr(LazyIntSymbolicStr, symname)(self, *a, **kw)
        with NoTracing():
            if any(isinstance(x, AnySymbolicStr) for x in a):
                selfs = LazyIntSymbolicStr(list(map(ord, self)))
            else:
                return orig(self, *a, **kw)
        return getattr(LazyIntSymbolicStr, symname)(selfs, *a, **kw)
    return patched


for _n in ('__getitem__', '__add__', '__eq__', 'split', 'replace', 'lstrip', 'rstrip',
           'strip', 'startswith', 'endswith', 'find', 'rfind', 'count', 'lower',
           '__contains__', '__len__', 'join'):
    _fn = getattr(str, _n)
    if _n in ('join',):
        continue
    _core._PATCH_REGISTRATIONS[_fn] = _sym_or(_fn, _n)


def _str_hash(self):
    # hashing is a C boundary: realise (forks on the concrete value if characters are symbolic)
    with NoTracing():
        if isinstance(self, LazyIntSymbolicStr):
            r = LazyIntSymbolicStr.__ch_realize__(self)
        elif isinstance(self, AnySymbolicStr):
            r = realize(self)
        else:
            r = self
        return _orig_str_hash(r)


_core._PATCH_REGISTRATIONS[str.__hash__] = _str_hash


# ---- %-formatting with symbolic args (only %s, %d, %%) -------------------------------------
_SIMPLE_ARG = (str, int, float, type(None), bool)


def _sym_format(self, other):
    """``symbolic format string % args`` without realising the format: walked character by character (a fork
    per symbolic character: is it '%'?), directives %s / %d / %% only; anything else falls back to realisation"""
    args = other if isinstance(other, tuple) else (other,)
    out = ''
    i = 0
    k = 0
    n = len(self)
    while k < n:
        ch = self[k]
        if ch == '%':
            if k + 1 >= n:
                raise ValueError('incomplete format')
            nx = self[k + 1]
            if nx == '%':
                out = out + '%'
            elif nx == 's' or nx == 'd':
                if i >= len(args):
                    raise TypeError('not enough arguments for format string')
                out = out + str(args[i])
                i += 1
            else:
                with NoTracing():
                    return str.__mod__(realize(self), deep_realize(other))
            k += 2
        else:
            out = out + ch
            k += 1
    if i != len(args):
        raise TypeError('not all arguments converted during string formatting')
    return out


def _str_mod(self, other):
    with NoTracing():
        symbolic_format = isinstance(self, AnySymbolicStr) and not isinstance(other, dict)
    if symbolic_format:
        return _sym_format(self, other)
    with NoTracing():
        if isinstance(self, AnySymbolicStr):
            self = realize(self)
        if not isinstance(self, str):
            raise TypeError
        args = other if isinstance(other, tuple) else (other,)
        simple = not _re.search(r'%[^sd%]', self) and not self.endswith('%') or \
            (not _re.search(r'%[^sd%]', self.replace('%%', '')) and
             not self.replace('%%', '').endswith('%'))
        anysym = any(type(a) not in _SIMPLE_ARG for a in args)
        if isinstance(other, dict) or not simple or not anysym:
            return str.__mod__(self, deep_realize(other))
        pieces = _re.split(r'(%[sd%])', self)
    out = ''
    i = 0
    for p in pieces:
        if p == '%%':
            out = out + '%'
        elif p in ('%s', '%d'):
            if i >= len(args):
                raise TypeError('not enough arguments for format string')
            out = out + str(args[i])
            i += 1
        else:
            out = out + p
    if i != len(args):
        raise TypeError('not all arguments converted during string formatting')
    return out


_core._PATCH_REGISTRATIONS[str.__mod__] = _str_mod


def _symstr_mod(self, args):
    # a symbolic str on the left of % dispatches to its own class (AbcString.__mod__ realises ``self.data``)
    if isinstance(args, dict):
        return self.data % args
    return _sym_format(self, args)


AnySymbolicStr.__mod__ = _symstr_mod


# ---- make CrossHair's symbolic Match faithful to re.Match for named groups ------------------
def _gidx(self, g):
    return self.re.groupindex[g] if isinstance(g, str) else g


def _m_groupdict(self, default=None):
    out = {}
    for name, idx in self.re.groupindex.items():
        out[name] = default if self._groups[idx] is None else self.group(idx)
    return out


def _m_span(self, g=0):
    s = self._groups[_gidx(self, g)]
    return (-1, -1) if s is None else s


def _m_start(self, g=0):
    return _m_span(self, g)[0]


def _m_end(self, g=0):
    return _m_span(self, g)[1]


_relib._Match.groupdict = _m_groupdict
_relib._Match.span = _m_span
_relib._Match.start = _m_start
_relib._Match.end = _m_end


# ---- back-references in CrossHair's symbolic regex matcher --------------------------------------
# relib raises ReUnhandled(GROUPREF) and then *realises* the subject string (for a SymToken that
# includes its whole source), so every quoted attribute (``(?P<quote>['"])...(?P=quote)``) would be
# explored concretely.  The matcher is continuation based: when the end-of-group marker of group g
# is processed going forward, its span (begin, offset) is known, so every ``GROUPREF g`` in the
# remaining pattern is resolved to that span and matched character by character.
try:
    import re._constants as _sre_c
except ImportError:  # pragma: no cover
    import sre_constants as _sre_c

_GROUPREF_RESOLVED = object()
_orig_imp = _relib._internal_match_patterns


def _resolve(items, group_num, span):
    out = []
    changed = False
    for item in items:
        op, arg = item
        if op is _sre_c.GROUPREF and arg == group_num:
            out.append((_GROUPREF_RESOLVED, span))
            changed = True
        elif op in (_sre_c.MIN_REPEAT, _sre_c.MAX_REPEAT):
            lo, hi, sub = arg
            new, ch = _resolve(list(sub), group_num, span)
            if ch:
                out.append((op, (lo, hi, new)))
                changed = True
            else:
                out.append(item)
        elif op is _sre_c.BRANCH and arg[0] is None:
            news = []
            anych = False
            for b in arg[1]:
                nb, ch = _resolve(list(b), group_num, span)
                news.append(nb if ch else b)
                anych = anych or ch
            if anych:
                out.append((op, (None, news)))
                changed = True
            else:
                out.append(item)
        elif op is _sre_c.SUBPATTERN:
            g, a, b, sub = arg
            new, ch = _resolve(list(sub), group_num, span)
            if ch:
                out.append((op, (g, a, b, new)))
                changed = True
            else:
                out.append(item)
        elif op in (_sre_c.ASSERT, _sre_c.ASSERT_NOT):
            d, sub = arg
            new, ch = _resolve(list(sub), group_num, span)
            if ch and d == 1:
                out.append((op, (d, new)))
                changed = True
            else:
                out.append(item)
        else:
            out.append(item)
    return out, changed


def _imp(top_patterns, flags, string, offset, allow_empty=True, ord=ord, chr=chr):
    if len(top_patterns) > 0:
        op, arg = top_patterns[0]
        if op is _relib._END_GROUP_MARKER:
            group_num, begin = arg
            rest, changed = _resolve(list(top_patterns)[1:], group_num, (begin, offset))
            if changed:
                top_patterns = [top_patterns[0]] + rest
        elif op is _GROUPREF_RESOLVED:
            begin, end = arg
            space = _relib.context_statespace()
            n = realize(end) - realize(begin)
            begin = realize(begin)
            offset = realize(offset)
            with ResumedTracing():
                strlen = len(string)
            if offset + n > realize(strlen):
                return None
            for i in range(n):
                with ResumedTracing():
                    a = ord(string[begin + i])
                    b = ord(string[offset + i])
                if isinstance(a, int) and isinstance(b, int):
                    if a != b:
                        return None
                    continue
                from crosshair.libimpl.builtinslib import SymbolicInt
                ea = SymbolicInt._coerce_to_smt_sort(a)
                eb = SymbolicInt._coerce_to_smt_sort(b)
                if not space.smt_fork(ea == eb):
                    return None
            prefix = _relib._MatchPart([(offset, offset + n)])
            sub_allow_empty = allow_empty if n == 0 else True
            suffix = _relib._internal_match_patterns(
                list(top_patterns)[1:], flags, string, offset + n, sub_allow_empty,
                ord=ord, chr=chr)
            if suffix is None:
                return None
            return prefix._add_match(suffix)
    return _orig_imp(top_patterns, flags, string, offset, allow_empty, ord=ord, chr=chr)


_relib._internal_match_patterns = _imp


# ---- other str subclasses that must stay symbolic: chameleon.utils.Markup ------------------------
def symbolic_str_subclass(real_cls, graft_names=()):
    """Returns (SymClass, factory) modelling ``real_cls(str_value)`` for a symbolic str: the proxy reports
    ``real_cls`` as its type and carries the real methods named in ``graft_names``."""
    class Sym(LazyIntSymbolicStr):
        def __ch_pytype__(self):
            return real_cls

        def __ch_realize__(self):
            return real_cls(LazyIntSymbolicStr.__ch_realize__(self))

        def __hash__(self):
            return _orig_str_hash(LazyIntSymbolicStr.__ch_realize__(self))
    for n in graft_names:
        setattr(Sym, n, real_cls.__dict__[n])
    Sym.__name__ = 'Sym' + real_cls.__name__

    def factory(value=''):
        with NoTracing():
            if isinstance(value, LazyIntSymbolicStr):
                return Sym(value._codepoints)
            if isinstance(value, AnySymbolicStr):
                value = realize(value)
            return real_cls(value)
    return Sym, factory


import chameleon.utils as _cu  # noqa: E402

SymMarkup, _markup_factory = symbolic_str_subclass(_cu.Markup, ('__html__',))
register_patch(_cu.Markup, _markup_factory)
