"""Two (or more) templates compiled one after the other through one on-disk module cache (a fresh
ModuleLoader directory per call, removed afterwards).  Compilation and module loading are C-boundary work and
run outside the CrossHair tracer; which templates, in which order, is what the calling harness lets the solver
choose."""
import shutil
import tempfile

from vlib.notrace import NoTracing


def compile_through_one_cache(specs):
    """specs: [(template class, source text, keyword options)] -> list of template instances, compiled in this
    order with the same ModuleLoader"""
    from chameleon.loader import ModuleLoader
    with NoTracing():
        d = tempfile.mkdtemp(prefix='verif-cache-')
        try:
            loader = ModuleLoader(d)
            out = []
            for cls, text, kw in specs:
                out.append(cls(text, loader=loader, **kw))
            return out
        finally:
            shutil.rmtree(d, True)
