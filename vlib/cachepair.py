"""Two (or more) templates compiled one after the other through one on-disk module cache (a fresh
ModuleLoader directory per call, removed afterwards).  Compilation and module loading are C-boundary work and
run outside the CrossHair tracer; which templates, in which order, is what the calling harness lets the solver
choose."""
import shutil
import tempfile

from vlib.notrace import NoTracing


def compile_through_one_cache(specs):
    """specs: [(template class, source text, keyword options)] -> list of template instances, compiled in this
    order with the same ModuleLoader"""
    import sys
    from chameleon.loader import ModuleLoader
    with NoTracing():
        d = tempfile.mkdtemp(prefix='verif-cache-')
        before = set(sys.modules)
        try:
            loader = ModuleLoader(d)
            out = []
            for cls, text, kw in specs:
                out.append(cls(text, loader=loader, **kw))
            return out
        finally:
            shutil.rmtree(d, True)
            # ModuleLoader registers what it loads in sys.modules under the cache key: forget it again, so that
            # one call (one explored path) cannot influence the next
            for name in set(sys.modules) - before:
                del sys.modules[name]


def cook_files_through_one_cache(text, classes, name='page.pt'):
    """one source *file* served by several file-template classes in this order, all cooked through the same
    ModuleLoader; -> the cooked template instances (the file and the cache directory are removed again)"""
    import os
    import sys
    from chameleon.loader import ModuleLoader
    with NoTracing():
        d = tempfile.mkdtemp(prefix='verif-cache-')
        before = set(sys.modules)
        try:
            path = os.path.join(d, name)
            with open(path, 'wb') as f:
                f.write(text.encode('utf-8'))
            os.mkdir(os.path.join(d, 'cache'))
            loader = ModuleLoader(os.path.join(d, 'cache'))
            out = []
            for cls, kw in classes:
                t = cls(path, loader=loader, auto_reload=False, **kw)
                t.cook_check()
                out.append(t)
            return out
        finally:
            shutil.rmtree(d, True)
            for name in set(sys.modules) - before:
                del sys.modules[name]
