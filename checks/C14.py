"""C14 -- rendering is deterministic, side-effect free on its inputs, and thread-safe (DESIGN.md 4, C14)."""
H = 'checks.hC14'


def plan(tier, seed):
    quick = tier == 'quick'
    k = 10 if quick else 14
    leads = (0, 5, 10) if quick else (0, 3, 6, 9, 12)
    tj = [{'scenario': sc, 'second': second, 'k': k, 'lead': lead} for sc in ('fresh', 'changed')
          for second in ('render', 'macro') for lead in leads]
    # thread b completes its own check (and compilation) while thread a is paused at several points of its own
    for sc in ('fresh', 'changed'):
        for second in ('render', 'macro'):
            for la in ((8, 16) if quick else (4, 8, 12, 16, 19)):
                tj.append({'scenario': sc, 'second': second, 'k': 8 if quick else 10, 'lead': la, 'lead_b': 'use'})
    famT = dict(name='two_threads_shared_file_template', module=H, fn='threads', jobs=tj,
                timeout=900 if quick else 3000, vacuity=1,
                mutants=[{'name': 'cooked_flag_early', 'cfg': {'scenario': 'fresh', 'second': 'render', 'k': 10}},
                         {'name': 'stale_window', 'cfg': {'scenario': 'changed', 'second': 'render', 'k': 10}},
                         {'name': 'flag_before_publish', 'cfg': {'scenario': 'fresh', 'second': 'macro', 'k': 8, 'lead': 10}},
                         {'name': 'forget_before_publish', 'cfg': {'scenario': 'fresh', 'second': 'macro', 'k': 8, 'lead': 16, 'lead_b': 'use'}}])
    dj = [{'template': t} for t in ('globals-repeat', 'macro-code', 'mutable-args', 'render-keywords')]
    famD = dict(name='determinism_no_carried_state', module=H, fn='determinism', jobs=dj, timeout=900, vacuity=1,
                program_key='template', mutants=[{'name': 'shared_repeat_dict', 'cfg': {'template': 'globals-repeat'}}])
    # where the language leaves an order open to the implementation, the output follows the statement's order (and
    # so cannot depend on set iteration / the hash seed of the process): C10's program with five attributes that
    # exist only in i18n:attributes, against the reference
    from checks import C10
    oj = [j for j in C10.plan(tier, seed)['families'][0]['jobs'] if j.get('label') == 'translation-only-attributes']
    famO = dict(name='output_order_is_the_statement_order', module='checks.hG', fn='H', jobs=oj, timeout=300, vacuity=1,
                program_key='label', mutants=[])
    # a loader (and the templates it creates) must not modify the search-path list its caller owns, and what was
    # loaded earlier must not change how later names resolve (C16's loader-history harness, symbolic existence matrix)
    lj = [{'ext': '.pt', 'dirs': 2, 'getitem': False, 'loads': 2}, {'ext': None, 'dirs': 2, 'getitem': True, 'loads': 2}]
    famL = dict(name='loader_leaves_caller_inputs_alone', module='checks.hC16', fn='zpt_loads', jobs=lj, timeout=900,
                vacuity=1, mutants=[{'name': 'shared_search_path', 'cfg': lj[0]}])
    kk = 10 if quick else 12
    sj = [{'loader': True, 'k': kk, 'same': same, 'lead': lead} for same in (True, False) for lead in ((0, 18) if quick else (0, 6, 12, 18, 20))]
    famS = dict(name='two_threads_shared_loader', module=H, fn='loader_threads', jobs=sj, timeout=900 if quick else 3000,
                vacuity=1, mutants=[{'name': 'registry_placeholder', 'cfg': {'loader': True, 'k': 8, 'same': True}}])
    return dict(
        level='model_checking',
        functions=['chameleon.template:BaseTemplateFile.cook_check', 'chameleon.template:BaseTemplate.cook',
                   'chameleon.template:BaseTemplate.render', 'chameleon.zpt.template:PageTemplate.render',
                   'chameleon.zpt.template:Macros.__getitem__', 'chameleon.tal:RepeatDict',
                   'chameleon.compiler:Compiler.visit_Macro', 'chameleon.zpt.template:PageTemplateFile.__init__',
                   'chameleon.loader:TemplateLoader.load', 'chameleon.loader:cache'],
        bounds=('two threads on one shared file template (first, lazily compiling use; and use after the file changed), '
                'each doing render() or a macro lookup: every statement-level interleaving of the real cook_check and '
                'cook for %d symbolic scheduling decisions after thread a has run ahead 0/5/10 (thorough: 0..12) statements (the remainder runs sequentially) and, in a second set, after thread a has been paused at one of 2 (thorough 5) points and thread b has completed its own check and compilation, mtime()/read() and the '
                'compile step are stubs that tag each compiled function with the file version; two threads loading the same / different names through one shared loader (the real cache wrapper and TemplateLoader.load, instrumented; a stub template class), %d scheduling decisions after thread a has run ahead 0/18 (thorough 0/6/12/18/20) of its about 22 statements: each gets the template it would get alone and the loader then serves one instance per name; determinism: 4 templates '
                '(global definitions, repeat state, macro, code block, caller-owned list/dict arguments, per-call translate / target_language keywords on a template with the encoding option) rendered twice on '
                'one instance, on a second instance and after a render with other arguments, for all symbolic '
                'arguments in range; loader: histories of 2 loads over 4 names x xml/text with every existence pattern of the candidate files leave the caller\'s search-path list unchanged and resolve independently of earlier loads. Outside: byte-code-granularity pre-emption, three threads, loader registry races '
                '(both callers get equivalent templates), "across processes" (id()-derived identifiers cannot be given '
                'to the solver).' % (k, kk)),
        assumptions=['statement-granular interleaving (CPython may switch inside a statement)',
                     'compile step stubbed by a version-tagged function table: the subject is the publish protocol'],
        families=[famT, famS, famD, famO, famL],
    )
