"""C06 kernel: the real Interpolator.__call__ on a symbolic Token with a *symbolic expression
validator* (Python's parser is a C boundary: its accept/reject pattern is universally quantified as a
function of the candidate's length), against a left-to-right scanner written from the docstring."""
import ast

from chameleon import compiler as cc
from chameleon import utils as cu
from chameleon.astutil import store
from chameleon.exc import ExpressionError
from chameleon.tokenize import Token

CFG = {}


def build(shape, cs):
    s = ''
    for piece in shape:
        s = s + (chr(cs[piece]) if isinstance(piece, int) else piece)
    return s


def _mutate(name):
    import inspect
    import textwrap
    src_fn = cc.Interpolator.__call__
    code = textwrap.dedent(inspect.getsource(src_fn))
    if name == 'skip_parity_wrong':          # '$$${x}' no longer interpolates
        new = code.replace('skip = i & 1', 'skip = i > 0')
    elif name == 'shortest_first':           # shrink one character too many
        new = code.replace('matched = matched[m.start():m.end() - 1]', 'matched = matched[m.start():m.end() - 2]')
    elif name == 'dollar_not_undoubled':
        new = code.replace("part = part.replace('$$', '$')", "part = part")
    else:
        raise KeyError(name)
    assert new != code
    ns = dict(src_fn.__globals__)
    exec(new, ns)
    cc.Interpolator.__call__ = ns['__call__']


def prepare(cfg):
    if cfg.get('mutant'):
        _mutate(cfg['mutant'])


class _Compiler:
    def __init__(self, engine, string):
        self.engine = engine
        self.string = string

    def assign_text(self, target):
        self.engine.accepted.append((self.string, getattr(self.string, 'pos', None), target.id))
        return [ast.Pass()]


class _Engine:
    """engine.parse(string): accepts iff bit len(string) of the symbolic mask is set"""

    def __init__(self, mask):
        self.mask = mask
        self.accepted = []

    def valid(self, string):
        n = len(string)
        return (self.mask >> n) & 1 == 1

    def parse(self, string, handle_errors=True, char_escape=None):
        if not self.valid(string):
            raise ExpressionError('invalid', string)
        return _Compiler(self, string)


def run_real(text, mask):
    eng = _Engine(mask)
    interp = cc.Interpolator(Token(text, 0, text), True)
    name = store('x')
    try:
        body = interp(name, eng)
    except ExpressionError:
        return 'error'
    final = body[-1].value
    ids = {tid: (s, p) for s, p, tid in eng.accepted}
    lits = {}
    for st in body[:-1]:           # '${}' is kept as a literal through an assigned constant
        if isinstance(st, ast.Assign) and isinstance(st.value, ast.Constant):
            lits[st.targets[0].id] = st.value.value
    if isinstance(final, ast.BinOp):
        nodes = final.right.elts
    else:
        nodes = [final]
    parts = []
    for n in nodes:
        if isinstance(n, ast.Constant):
            parts.append(('lit', n.value))
        else:
            nm = n
            if isinstance(n, ast.IfExp):
                nm = n.body
            if nm.id in lits and nm.id not in ids:
                parts.append(('lit', lits[nm.id]))
                continue
            s, p = ids[nm.id]
            parts.append(('expr', s, p))
    return merge(parts)


def merge(parts):
    out = []
    for p in parts:
        if p[0] == 'lit':
            if p[1] == '':
                continue
            if out and out[-1][0] == 'lit':
                out[-1] = ('lit', out[-1][1] + p[1])
                continue
        out.append(p)
    return out


def run_ref(text, mask):
    """Scanner from the docstring / property statement: '$$' -> '$'; at an (unescaped) '${' the longest
    candidate ending at a '}' that validates is the expression; none validates -> error; no '}' -> literal;
    '${}' literal; every other character unchanged."""
    n = len(text)
    parts = []
    lit = ''
    i = 0
    while i < n:
        ch = text[i]
        if ch != '$':
            lit = lit + ch
            i += 1
            continue
        j = i
        while j < n and text[j] == '$':
            j += 1
        run = j - i
        opens = False
        if j < n and text[j] == '{':
            # positions of '}' after the brace
            k = n - 1
            last = -1
            while k > j:
                if text[k] == '}':
                    last = k
                    break
                k -= 1
            if last >= 0:
                opens = True
        if not opens:
            lit = lit + '$' * (run // 2 + run % 2)
            i = j
            continue
        lit = lit + '$' * (run // 2)
        if run % 2 == 0:
            # every '$' of the run is escaped: the brace is ordinary text
            i = j
            continue
        # interpolation opened by the last '$' of the run at j-1
        found = -1
        k = n - 1
        while k > j:
            if text[k] == '}':
                cand = text[j + 1:k]
                if cand == '':
                    found = k      # '${}' is kept literally
                    break
                if (mask >> len(cand)) & 1 == 1:
                    found = k
                    break
            k -= 1
        if found < 0:
            return 'error'
        cand = text[j + 1:found]
        if cand == '':
            lit = lit + '${}'
        else:
            if lit:
                parts.append(('lit', lit))
                lit = ''
            parts.append(('expr', cand, j + 1))
        i = found + 1
    if lit:
        parts.append(('lit', lit))
    return merge(parts)


def same(a, b):
    if a == 'error' or b == 'error':
        return a == b
    if len(a) != len(b):
        return False
    for x, y in zip(a, b):
        if x[0] != y[0] or x[1] != y[1]:
            return False
        if x[0] == 'expr' and x[2] != y[2]:
            return False
    return True


def interp(c0: int, c1: int, c2: int, c3: int, c4: int, mask: int) -> bool:
    """
    pre: 0 <= c0 < 0x110000 and 0 <= c1 < 0x110000 and 0 <= c2 < 0x110000
    pre: 0 <= c3 < 0x110000 and 0 <= c4 < 0x110000 and 0 <= mask < 4096
    post: _
    """
    text = build(CFG['shape'], (c0, c1, c2, c3, c4))
    ok = same(run_real(text, mask), run_ref(text, mask))
    return (not ok) if CFG.get('negate') else ok


# ---- entity decoding of the expression text ----------------------------------------------------
import html as _html   # noqa: E402
import re as _re       # noqa: E402


def entity(c0: int, c1: int, c2: int, c3: int, c4: int, mask: int) -> bool:
    """
    pre: 0 <= c0 < 0x110000 and 0 <= c1 < 0x110000 and 0 <= c2 < 0x110000
    pre: 0 <= c3 < 0x110000 and 0 <= c4 < 0x110000 and mask == 0
    post: _
    """
    s = build(CFG['shape'], (c0, c1, c2, c3, c4))
    want = ref_decode(s)
    if 'INVALID' in want and 'malformed_char_reference' in (CFG.get('exclude') or ()):
        # known finding: &#<not a number>; / out-of-range numbers raise a bare ValueError and
        # &x<name>; is decoded like &<name>; -- outside the claim, every other string stays inside
        return (not True) if CFG.get('negate') else True
    try:
        got = cu.decode_htmlentities(s)
    except (ValueError, OverflowError):
        got = 'RAISED'
    ok = got == want
    return (not ok) if CFG.get('negate') else ok


def ref_decode(s):
    """&name; (known HTML entity), &#N; (1-5 decimal digits), &#xH; -> character; anything else unchanged"""
    from html.entities import name2codepoint
    out = ''
    i = 0
    n = len(s)
    while i < n:
        if s[i] == '&':
            j = s.find(';', i + 1)
            if j > 0 and j - i - 1 <= 10:
                body = s[i + 1:j]
                r = _decode_one(body, name2codepoint)
                if r is not None:
                    out = out + r
                    i = j + 1
                    continue
        out = out + s[i]
        i += 1
    return out


def _is_word(ch):
    return ch.isalnum() or ch == '_'


def _decode_one(body, table):
    if body.startswith('#x') and len(body) > 2:
        digits = body[2:]
        if 1 <= len(digits) <= 8 and all(_is_word(c) for c in digits):
            if all(c in '0123456789abcdefABCDEF' for c in digits):
                v = int(digits, 16)
                return chr(v) if v < 0x110000 else 'INVALID'
            return 'INVALID'
        return None
    if body.startswith('#'):
        digits = body[1:]
        if 1 <= len(digits) <= 8 and all(_is_word(c) for c in digits):
            if all(c in '0123456789' for c in digits):
                if len(digits) > 5:
                    return 'INVALID'
                v = int(digits)
                return chr(v) if v < 0x110000 else 'INVALID'
            return 'INVALID'
        return None
    if 1 <= len(body) <= 8 and all(_is_word(c) for c in body):
        if body.startswith('x'):
            return 'INVALID'          # &xlt; / &xi; : the optional 'x' of the pattern is consumed without '#'
        cp = table.get(body)
        if cp:
            return chr(cp)
    return None


def explain(cfg, *args):
    text = build(cfg['shape'], args[:5])
    try:
        real = run_real(text, args[5])
    except Exception as exc:
        real = 'EXC %r' % (exc,)
    return {'text': text, 'mask': args[5], 'real': real, 'ref': run_ref(text, args[5])}
