"""C06 -- ${...} interpolation is delimited correctly and $$ escapes it (DESIGN.md 4, C06)."""
import random

from vlib.tprog import py

HK = 'checks.hC06'
HG = 'checks.hG'


def I(src):   # noqa: E743
    return {'interp': py(src)}


def doc(*children, **kw):
    d = {'tag': 'div', 'close_indent': 0, 'children': list(children)}
    d.update(kw)
    return d


def context_programs(tier):
    out = []
    R = lambda t, v=1: I("rec('%s', %r)" % (t, v))    # noqa: E731
    # text, both attribute quotings, comment, CDATA
    out.append(('text', doc('a', R('t'), 'b', {'dollar': 1}, 'c', {'dollar': 2}, R('u'), '{x}'), []))
    out.append(('attr', doc({'tag': 'p', 'static': [['t', ['a', R('a', 'v<'), 'b']], ['u', ['x', {'dollar': 1}, 'y', R('a2')]]],
                             'children': ['k']}), []))
    out.append(('comment', doc({'comment': ['a', R('c', 'v<'), 'b'], 'kind': ''}, 't'), []))
    out.append(('comment-q', doc({'comment': ['a', R('c'), 'b'], 'kind': '?'}, 't'), []))
    # a <!--? comment whose text starts with characters of the marker itself
    out.append(('comment-q-leading-marker-characters', doc({'comment': ['<b>', R('c'), '</b>'], 'kind': '?'}, 's',
                                                           {'comment': ['!x'], 'kind': '?'}, {'comment': ['?-x'], 'kind': '?'},
                                                           {'comment': ['-x'], 'kind': '?'}, 't'), []))
    out.append(('comment-bang', doc({'comment': ['a', R('c'), 'b'], 'kind': '!'}, 't'), []))
    out.append(('cdata', doc({'cdata': ['a', R('d', 'v<&'), 'b']}, 't'), []))
    # character entities in an expression are decoded before evaluation also in comments and CDATA sections
    ent = lambda src, raw: {'interp': {'py': src, 'raw': raw}}      # noqa: E731
    out.append(('entities-in-cdata-and-comment', doc({'cdata': ['a', ent("len('&') + (1 if 1 < 2 else 0)", "len('&amp;') + (1 if 1 &lt; 2 else 0)"), 'b']},
                                                     {'comment': ['c', ent("rec('q', \"x\")", "rec('q', &quot;x&quot;)"), 'd'], 'kind': ''}, 't'), []))
    # switches: meta:interpolation on a subtree (text, comments, CDATA of the subtree; attributes unaffected)
    inner_on = {'tag': 'i', 'interp_switch': 'on', 'children': [R('on1')]}
    off = {'tag': 'p', 'interp_switch': 'off', 'static': [['t', ['q', R('attr')]]], 'children': [
        R('off1'), {'comment': [R('offc')], 'kind': ''}, {'cdata': [R('offd')]}, inner_on,
        {'tag': 'b', 'children': [R('off2')]}]}
    out.append(('switch-off-on', doc(R('before'), off, R('after')), []))
    out.append(('switch-true-false', doc({'tag': 'p', 'interp_switch': 'false', 'children': [
        R('x1'), {'tag': 'i', 'interp_switch': 'true', 'children': [R('x2'), {'tag': 'b', 'interp_switch': 'off',
                                                                                  'children': [R('x3')]}]}]}), []))
    # a macro defined inside a subtree whose interpolation is switched off stays switched off (rendered in place)
    mac = {'tag': 'section', 'define_macro': 'm', 'children': [R('m1'), {'comment': [R('mc')], 'kind': ''}, {'cdata': [R('md')]},
                                                              {'tag': 'i', 'interp_switch': 'on', 'children': [R('m2')]}]}
    out.append(('macro-inside-switched-off-subtree', doc({'tag': 'p', 'interp_switch': 'off', 'children': [R('o1'), mac, R('o2')]},
                                                         R('after')), []))
    out.append(('comment-option-off', doc({'comment': ['a', R('c'), 'b'], 'kind': ''}, R('t')),
                [], {'enable_comment_interpolation': False}))
    # entities in the expression text are decoded before evaluation (text and attribute)
    out.append(('entities', doc({'tag': 'p', 'static': [['t', [I("'a & b' if 1 < 2 else '>'")]]],
                                 'children': [I("rec('e', 'a & b')"), ' {x} ', I("len('<>') + (3 if 1 < 2 else 0)"),
                                              I("'}' + \"{\"")]}), []))
    out.append(('braces-in-expr', doc(I("{'k': '}'}['k'] + '{'"), '|', I("'$' + '${' + '$$'"), '|',
                                      I("len({1, 2})"), '|', I("f'{1 + 1}'")), []))
    out.append(('dollar-runs', doc({'dollar': 2}, I("'v'"), '|', {'dollar': 3}, '|', {'dollar': 1}, '{x}|',
                                   {'dollar': 1}, ' ', {'dollar': 4}, I("'w'")), []))
    out.append(('only-escaped-dollar-interp', doc({'tag': 'p', 'children': ['Total: ', {'dollar': 1}, I("rec('amt', 7)"), '.00']}),
                []))
    # '$$' without any '${' in the same attribute value / comment / CDATA section (known finding)
    out.append(('dollar-only-attr', doc({'tag': 'p', 'static': [['u', ['x', {'dollar': 1}, 'y']]], 'children': ['k']}), []))
    out.append(('dollar-only-comment', doc({'comment': ['a', {'dollar': 1}, 'b'], 'kind': ''}, 't'), []))
    out.append(('dollar-only-cdata', doc({'cdata': ['a', {'dollar': 1}, 'b']}, 't'), []))
    out.append(('dollar-with-interp-comment-cdata', doc({'comment': ['a', {'dollar': 1}, R('c1')], 'kind': ''},
                                                        {'cdata': [{'dollar': 2}, R('c2'), 'b']}), []))
    # implicit translation of text (option): interpolation delimiting is the same; a run mixing names and other
    # expressions; an escaped ${name} next to a real one (known finding)
    out.append(('implicit-translate-mixed', doc({'tag': 'p', 'children': ['a ', I('x'), ' b ', R('r', 2), ' c ', I('y'), ' d']},
                                                {'tag': 'q', 'children': [R('q1', 3), ' and ', I('x')]},
                                                {'tag': 'q', 'children': [I('x'), ' and ', R('q2', 4)]}),
                [['x', 'int', 0], ['y', 'int', 1]], {'implicit_i18n_translate': True}))
    out.append(('implicit-translate-escaped-name', doc({'tag': 'p', 'children': [{'dollar': 1}, '{x} ', I('x')]}),
                [['x', 'int', 0]], {'implicit_i18n_translate': True}))
    # values decide which branch is rendered: nothing evaluated where switched off
    out.append(('cond-and-switch', doc({'tag': 'p', 'condition': py('cv'), 'children': [R('in')]},
                                       {'tag': 'p', 'interp_switch': 'off', 'condition': py('cv'), 'children': [R('no')]}),
                [['cv', 'bool', 0]]))
    return out


def kernel_shapes(tier, rnd):
    quick = tier == 'quick'
    shapes = [[0, 1, 2], [0, 1, 2, 3], ['${', 0, 1, '}', 2], [0, '${', 1, '}', 2, '}'], ['$', 0, '{a}', 1],
              ['${', 0, '}${', 1, '}'], ['a${', 0, '}b', 1, '}c'], ['$$', 0, 1, 2], [0, '$${x}', 1],
              ['${a', 0, 'b}', 1, 2], ['x', 0, '${', 1], ['${', 0, '}', 1, '{', 2, '}']]
    if not quick:
        # (five symbolic characters did not finish within 40 minutes per shape: four is the thorough bound)
        shapes += [['${', 0, 1, '}', 2, 3], ['$', 0, '$', 1, '{', 2, '}'],
                   ['a${b}', 0, 1, '${c}', 2], ['${', 0, '}', 1, '${', 2, '}'], [0, '}', 1, '${', 2, 3]]
    return shapes


def plan(tier, seed):
    rnd = random.Random(seed)
    quick = tier == 'quick'
    famK = dict(name='interpolator_kernel', module=HK, fn='interp',
                jobs=[{'shape': s} for s in kernel_shapes(tier, rnd)], timeout=600 if quick else 2400, vacuity=1,
                mutants=[{'name': 'skip_parity_wrong', 'cfg': {'shape': ['$$', 0, 1, 2]}},
                         {'name': 'shortest_first', 'cfg': {'shape': ['${', 0, 1, '}', 2]}},
                         {'name': 'dollar_not_undoubled', 'cfg': {'shape': ['$$', 0, 1, 2]}}])
    ent_shapes = [['&', 0, 1, ';'], ['&#', 0, ';'], ['&#x', 0, ';'], ['&#6', 0, ';'], [0, 'amp', 1], ['&am', 0, ';'],
                  ['&', 0, 't;', 1], [0, 1, 2]]
    if not quick:
        ent_shapes += [['&#', 0, 1, ';'], ['&#x', 0, 1, ';'], ['&', 0, 1, 2, ';'], ['&#', 0, 1, 2, ';'], ['&#1', 0, 1, 2, 3, ';'], [0, 1, 2, 3], ['&', 0, ';&', 1, ';']]
    famE = dict(name='entity_decoding', module=HK, fn='entity', jobs=[{'shape': s} for s in ent_shapes],
                timeout=600 if quick else 2400, vacuity=1, mutants=[])
    jobs = []
    for item in context_programs(tier):
        label, prog, vars_ = item[0], item[1], item[2]
        cfg = {'prog': prog, 'vars': vars_, 'label': label}
        if len(item) > 3:
            cfg['options'] = item[3]
        jobs.append(cfg)
    famG = dict(name='interpolation_contexts', module=HG, fn='H', jobs=jobs, timeout=300, batch=3, vacuity=1,
                program_key='prog', mutants=[{'name': 'visit_text_skips_escaped',
                          'cfg': [j for j in jobs if j['label'] == 'only-escaped-dollar-interp'][0]}])
    return dict(
        level='model_checking',
        functions=['chameleon.compiler:Interpolator.__call__', 'chameleon.utils:decode_htmlentities',
                   'chameleon.utils:substitute_entity', 'chameleon.parser:groupdict',
                   'chameleon.zpt.program:MacroProgram.visit_text', 'chameleon.zpt.program:MacroProgram.visit_comment',
                   'chameleon.zpt.program:MacroProgram.visit_cdata',
                   'chameleon.zpt.program:MacroProgram._create_attributes_nodes',
                   'chameleon.compiler:ExpressionTransform.visit_Interpolation'],
        bounds=('Interpolator kernel: %d text shapes with up to %d symbolic code points (every code point) and a '
                'symbolic 12-bit validator mask (candidate accepted iff bit len(candidate) is set: an arbitrary '
                'accept/reject pattern per opening); entity decoding: %d shapes, up to %d symbolic code points; contexts '
                'and switches: %d templates (text, both attribute quotings, comment, <!--?, <!--!, CDATA, '
                'meta:interpolation nestings depth <= 3, comment option off, entities and braces/quotes/$ inside '
                'expressions, $-runs, text under implicit_i18n_translate) executed against the reference with recording callables. Outside: the real '
                'Python grammar as validator, expressions longer than the shapes, $name (braces optional) form.'
                % (len(famK['jobs']), 4, len(ent_shapes), 3 if quick else 4, len(jobs))),
        assumptions=['validator stand-in: ExpressionError iff bit len(candidate) of a symbolic mask is clear',
                     'scanner oracle from the Interpolator docstring: $$ -> $, longest validating candidate per '
                     'opening, ${} literal, unmatched ${ literal, every other character unchanged'],
        families=[famK, famE, famG],
    )
