"""C05 kernels: chameleon.utils.Scope against a two-level reference model, and the compiler's
reserved-name acceptance predicate on symbolic names."""
from chameleon import compiler as cc
from chameleon import nodes
from chameleon.exc import TranslationError
from chameleon.utils import Scope

CFG = {}
KEYS = ('a', 'len')


def _mutate(name):
    if name == 'copy_root_is_parent':
        def copy(self):
            inst = Scope(self)
            inst._root = self
            return inst
        Scope.copy = copy
    elif name == 'contains_ignores_root':
        def __contains__(self, key):
            return dict.__contains__(self, key)
        Scope.__contains__ = __contains__
    else:
        raise KeyError(name)


def prepare(cfg):
    if cfg.get('mutant'):
        _mutate(cfg['mutant'])


class Model:
    """reference: each scope = (own dict, root dict)"""

    def __init__(self, init):
        self.own = [dict(init)]
        self.root = [None]        # index of the root scope, None = itself

    def rootdict(self, i):
        r = self.root[i]
        return self.own[i] if r is None else self.own[r]

    def copy(self, i):
        self.own.append(dict(self.own[i]))
        self.root.append(i if self.root[i] is None else self.root[i])
        return len(self.own) - 1

    def get(self, i, k):
        if k in self.own[i]:
            return ('v', self.own[i][k])
        r = self.rootdict(i)
        if k in r:
            return ('v', r[k])
        return ('missing',)

    def keys(self, i):
        out = list(self.own[i])
        if self.root[i] is not None:
            for k in self.own[self.root[i]]:
                if k not in self.own[i]:
                    out.append(k)
        return out


def observe(scope, k):
    try:
        v = scope[k]
        r = ('v', v)
    except KeyError:
        r = ('missing',)
    g = scope.get(k, 'D')
    c = k in scope
    try:
        n = scope.get_name(k)
        rn = ('v', n)
    except NameError:
        rn = ('missing',)
    return r, g, c, rn


def scope_ops(o0: int, s0: int, k0: int, v0: int, o1: int, s1: int, k1: int, v1: int,
              o2: int, s2: int, k2: int, v2: int, o3: int, s3: int, k3: int, v3: int,
              pre_a: bool) -> bool:
    """
    pre: 0 <= o0 < 4 and 0 <= o1 < 4 and 0 <= o2 < 4 and 0 <= o3 < 4
    pre: 0 <= s0 < 3 and 0 <= s1 < 3 and 0 <= s2 < 3 and 0 <= s3 < 3
    pre: 0 <= k0 < 2 and 0 <= k1 < 2 and 0 <= k2 < 2 and 0 <= k3 < 2
    post: _
    """
    nops = CFG.get('nops', 3)
    init = {'a': 100} if pre_a else {}
    real = [Scope(init)]
    model = Model(init)
    # fixed topology: scope 1 = copy of 0, scope 2 = copy of 1 (a macro used from within a macro)
    real.append(real[0].copy())
    model.copy(0)
    real.append(real[1].copy())
    model.copy(1)
    ops = [(o0, s0, k0, v0), (o1, s1, k1, v1), (o2, s2, k2, v2), (o3, s3, k3, v3)][:nops]
    for o, s, k, v in ops:
        key = KEYS[0] if k == 0 else KEYS[1]
        si = 0 if s == 0 else (1 if s == 1 else 2)
        sc = real[si]
        if o == 0:                       # local assignment
            sc[key] = v
            model.own[si][key] = v
        elif o == 1:                     # global assignment
            sc.set_global(key, v)
            model.rootdict(si)[key] = v
        elif o == 2:                     # delete local (what _leave_assignment does)
            if key in model.own[si]:
                del sc[key]
                del model.own[si][key]
        else:                            # a further copy replaces the scope (macro call returns later)
            real[si] = sc.copy() if si != 0 else sc
            if si != 0:
                j = model.copy(si)
                model.own[si], model.own[j] = model.own[j], model.own[si]
                # the new copy has the same root; swapping own dicts keeps indices stable
    ok = True
    for si in range(3):
        for key in KEYS:
            want = model.get(si, key)
            r, g, c, rn = observe(real[si], key)
            if r != want or rn != want:
                ok = False
            if g != (want[1] if want[0] == 'v' else 'D'):
                ok = False
            if c != (want[0] == 'v'):
                ok = False
        if sorted(real[si]) != sorted(model.keys(si)):
            ok = False
    return (not ok) if CFG.get('negate') else ok


# ---- reserved names: rejected <=> econtext / rcontext / starts with '__' --------------------------
class _E:
    cache = {}

    def __call__(self, expression, target):
        return []


def _compiler():
    c = object.__new__(cc.Compiler)
    c._scopes = [set()]
    c._expression_cache = {}
    c._aliases = [{}]
    c._engine = _E()
    return c


def accepted_define(name):
    c = _compiler()
    try:
        c.visit_Assignment(nodes.Assignment([name], nodes.Value('1'), True))
    except TranslationError:
        return False
    return True


def accepted_repeat(name):
    c = _compiler()
    c.visit = lambda node: []
    try:
        c.visit_Repeat(nodes.Repeat([name], nodes.Value('()'), True, '', nodes.Text('')))
    except TranslationError:
        return False
    return True


def reserved(c0: int, c1: int, c2: int, site: bool) -> bool:
    """
    pre: 0 <= c0 < 0x110000 and 0 <= c1 < 0x110000 and 0 <= c2 < 0x110000
    post: _
    """
    name = ''
    for piece in CFG['shape']:
        name = name + (chr((c0, c1, c2)[piece]) if isinstance(piece, int) else piece)
    want = not (name == 'econtext' or name == 'rcontext' or name.startswith('__'))
    got = accepted_repeat(name) if site else accepted_define(name)
    ok = got == want
    return (not ok) if CFG.get('negate') else ok
