"""C09 -- METAL: using a macro equals inlining it with its slots filled (DESIGN.md 4, C09)."""
import copy

from vlib import metal_inline as mi
from vlib.tprog import py

H = 'checks.hC09'
SEED = [0]


def I(src):   # noqa: E743
    return {'interp': py(src)}


def el(tag, *children, **kw):
    d = {'tag': tag, 'children': list(children)}
    d.update(kw)
    return d


def use(name, *children, expr=None, **kw):
    d = el('u', *children, use_macro=expr or "macros['%s']" % name, use_name=name, **kw)
    return d


def P(n):
    return el('s', I("%s | 'U'" % n))


def programs(tier):
    out = []     # (label, lib tree or None, caller tree, vars)

    def same(label, tree, vars_=()):
        out.append((label, None, tree, list(vars_)))

    # 1 simple macro, no slots, used twice later in the same template
    m1 = el('p', 'hello ', I('who'), define_macro='m1', static=[['class', 'c']])
    same('simple', el('div', m1, '|', use('m1'), '|', use('m1')), [['who', 'int', 0]])
    # 2/3 slots: filled, not filled, subset, unknown
    m2 = el('section', 'a', el('b', 'default-x', define_slot='x'), 'b', el('i', 'default-y ', I('v'), define_slot='y'), 'c',
            define_macro='m2')
    same('slot-none', el('div', m2, '|', use('m2')), [['v', 'int', 0]])
    same('slot-x', el('div', m2, '|', use('m2', el('em', 'FX ', I('v + 1'), fill_slot='x'))), [['v', 'int', 0]])
    same('slot-xy-unknown', el('div', m2, '|', use('m2', 'discarded text', el('em', 'FX', fill_slot='x'),
                                                   el('q', 'FY', fill_slot='y'), el('z', 'FZ', fill_slot='zz'))),
         [['v', 'int', 0]])
    # 4 repeated slot name
    m3 = el('ul', el('li', 'd1', define_slot='s'), el('li', 'mid'), el('li', 'd2', define_slot='s'), define_macro='m3')
    same('slot-repeated', el('div', m3, '|', use('m3', el('li', 'F', I('v'), fill_slot='s'))), [['v', 'int', 0]])
    # 5 use inside repeat; filler uses the loop variable; TAL inside macro body
    m4 = el('p', el('b', I('x | -1'), tal_dummy=None), el('span', 'd', define_slot='s'),
            el('i', 'cond', condition=py('cv')), define_macro='m4')
    m4.pop('children')
    m4 = el('p', el('b', I("x | 'nox'")), el('span', 'd', define_slot='s'), el('i', 'cond', condition=py('cv')),
            define_macro='m4')
    same('use-in-repeat', el('div', m4, '|', el('li', use('m4', el('span', 'F', I('x * 2'), fill_slot='s')),
                                                indent=2, repeat=['x', py('seq')])),
         [['seq', 'len', 0], ['cv', 'bool', 0]])
    # 6 locals of the macro do not reach the caller, globals do; macroname
    m5 = el('p', el('b', I('loc'), '/', I('glob'), '/', I('macroname | "nomacroname"'),
                    define=[['local', 'loc', py('dv + 1')], ['global', 'glob', py('dv + 2')]]),
            P('loc'), define_macro='m5')
    same('locals-globals', el('div', el('hide', m5, condition=py('False')), '|', P('loc'), P('glob'), use('m5'), P('loc'),
                               P('glob'), P('macroname')),
         [['dv', 'int', 0]])
    # 7 nested use: macro A uses macro B in its body
    mb = el('b', 'B(', el('i', 'bd', define_slot='t'), ')', define_macro='mb')
    ma = el('p', 'A[', use('mb', el('i', 'from-A ', I('v'), fill_slot='t')), ']', el('u2', 'ad', define_slot='s'),
            define_macro='ma')
    same('nested-use', el('div', mb, ma, '|', use('ma', el('u2', 'from-caller', fill_slot='s'))), [['v', 'int', 0]])
    # 8 use-macro inside a fill-slot
    same('use-in-fill', el('div', mb, m2, '|', use('m2', el('em', use('mb', el('i', 'deep ', I('v'), fill_slot='t')),
                                                           fill_slot='x'))), [['v', 'int', 0]])
    # 9 extend-macro chains (length 2 and 3); extender re-offers the slot inside its filler
    base = el('html', 'H', el('main', 'base-default', define_slot='body'), 'F', el('foot', 'bf', define_slot='foot'),
              define_macro='base')
    ext = el('x', el('wrap', 'W<', el('inner', 'ext-default', define_slot='body'), '>', fill_slot='body'),
             define_macro='ext', extend_macro="macros['base']", extend_name='base')
    ext2 = el('x', el('wrap2', 'W2<', el('inner2', 'ext2-default', define_slot='body'), '>', fill_slot='body'),
              define_macro='ext2', extend_macro="macros['ext']", extend_name='ext')
    same('extend-2-caller-fills', el('div', el('hide', base, ext, condition=py('False')), '|',
                                     use('ext', el('c', 'CALLER ', I('v'), fill_slot='body'))), [['v', 'int', 0]])
    same('extend-2-no-fill', el('div', el('hide', base, ext, condition=py('False')), '|', use('ext')), [])
    same('extend-2-fill-foot', el('div', el('hide', base, ext, condition=py('False')), '|',
                                  use('ext', el('c', 'CF', fill_slot='foot'))), [])
    same('extend-3-caller-fills', el('div', el('hide', base, ext, ext2, condition=py('False')), '|',
                                     use('ext2', el('c', 'CALLER', fill_slot='body'))), [])
    # 10 macro of another template; whole template as macro
    lib = el('div', m2, m5)
    out.append(('other-template', lib, el('div', use('m2', el('em', 'FX', I('v'), fill_slot='x'), expr="lib['m2']"),
                                          '|', use('m5', expr="lib.macros['m5']"), P('glob'), P('loc')),
                [['v', 'int', 0], ['dv', 'int', 1]]))
    # 12 global re-assignment inside a macro used several times
    m6 = el('p', I('g'), define_macro='m6', define=[['global', 'g', py('g + 1')]])
    same('global-reassign', el('div', el('hide', m6, condition=py('False')),
                               el('r', define=[['global', 'g', py('gv')]]), use('m6'), use('m6'), use('m6'), '[', I('g'), ']'),
         [['gv', 'int', 0]])
    m7 = el('p', el('li', I('item'), indent=2, repeat=['item', py('seq')], define=[['global', 'last', py('item')]]),
            define_macro='m7')
    m7 = el('p', el('li', I('item'), el('k', define=[['global', 'last', py('item')]]), indent=2, repeat=['item', py('seq')]),
            define_macro='m7')
    same('global-in-repeat-in-macro', el('div', el('hide', m7, condition=py('False')),
                                         el('r', define=[['global', 'last', py('-1')]]), use('m7'), '[', I('last'), ']'),
         [['seq', 'len', 0]])
    # a filler for a slot the used macro does not define is discarded: it must not reach a later use of another
    # macro that happens to define a slot of that name (same scope; inside a repeat; inside the first macro)
    same('unknown-fill-then-other-macro', el('div', el('hide', m1, m3, condition=py('False')), '|',
                                             use('m1', el('li', 'LEAK ', I('who'), fill_slot='s')), '|', use('m3')),
         [['who', 'int', 0]])
    same('unknown-fill-in-repeat', el('div', el('hide', m1, m3, condition=py('False')), '|',
                                      el('r', use('m1', el('li', 'LEAK', fill_slot='s')), use('m3'), indent=2,
                                         repeat=['x', py('seq')])),
         [['who', 'int', 0], ['seq', 'len', 1]])
    mouter = el('q', 'O[', use('m3'), ']', define_macro='mouter')
    same('unknown-fill-nested', el('div', el('hide', m3, mouter, condition=py('False')), '|',
                                   use('mouter', el('li', 'LEAK', fill_slot='s'))), [])
    same('filled-then-same-macro-unfilled', el('div', el('hide', m3, condition=py('False')), '|',
                                               use('m3', el('li', 'F', fill_slot='s')), '|', use('m3')), [])
    # slot names that differ only in non-ASCII letters
    mu = el('section', el('b', 'd1', define_slot='шапка'), '/', el('i', 'd2', define_slot='текст'),
            '/', el('u', 'd3', define_slot='größe'), el('u', 'd4', define_slot='grüße'), define_macro='mu')
    same('non-ascii-slot-names', el('div', el('hide', mu, condition=py('False')), '|',
                                    use('mu', el('em', 'F', I('v'), fill_slot='текст'), el('q', 'G', fill_slot='grüße'))),
         [['v', 'int', 0]])
    # use with define/condition on the using element
    same('use-with-define-condition', el('div', m1, '|', use('m1', define=[['local', 'who', py('who + 5')]],
                                                            condition=py('cv')), '|', I('who')),
         [['who', 'int', 0], ['cv', 'bool', 0]])
    return out


def generated(count, seed):
    """systematically varied (macro, caller) pairs from a small grammar (deterministic in ``seed``):
    macro body = texts / interpolations / slots (plain, under a condition, under a repeat; names may repeat) /
    local and global definitions; caller = any subset of fillers (incl. an unknown name) whose elements may carry
    condition / define / repeat and may read the macro's locals and loop variables (dynamic scope), the use
    placed plain / twice / inside a repeat / with a define on the using element / inside another macro."""
    import random
    rnd = random.Random(1000 + seed)
    out = []
    for n in range(count):
        vars_ = [['v', 'int', 0], ['dv', 'int', 1], ['seq', 'len', 2], ['cv', 'bool', 0], ['fc', 'bool', 1]]
        body = []
        nslots = rnd.choice([0, 1, 1, 2, 2, 3])
        names = [rnd.choice(['x', 'y']) for _ in range(nslots)]
        for k, sn in enumerate(names):
            body.append(rnd.choice(['a', 'b ', '', I('v'), I("loc | 'noloc'")]))
            default = [rnd.choice(['d%d' % k, 'dflt ', '']), rnd.choice([I('v'), I("item | 'noitem'"), ''])]
            default = [d for d in default if d != '']
            slot = el(rnd.choice(['b', 'i', 'span']), *default, define_slot=sn)
            wrap = rnd.choice(['plain', 'plain', 'cond', 'repeat'])
            if wrap == 'cond':
                slot = el('w', '(', slot, ')', condition=py('cv'))
            elif wrap == 'repeat':
                slot = el('li', slot, indent=2, repeat=['item', py('seq')])
            body.append(slot)
        body.append(rnd.choice(['z', I('v + 2'), I("macroname | 'nomn'"), '']))
        body = [b for b in body if b != '']
        kw = {}
        dchoice = rnd.choice(['none', 'local', 'global', 'both'])
        if dchoice in ('local', 'both'):
            kw.setdefault('define', []).append(['local', 'loc', py('dv + 1')])
        if dchoice in ('global', 'both'):
            kw.setdefault('define', []).append(['global', 'glob', py('dv + 2')])
        macro = el('p', *body, define_macro='g', **kw)
        fills = []
        for sn in ['x', 'y', 'zz']:
            if rnd.random() < 0.55:
                content = [rnd.choice(['F' + sn, 'fill ', '']),
                           rnd.choice([I('v + 1'), I("loc | 'noloc'"), I("item | 'noitem'"), I("glob | 'noglob'"), ''])]
                content = [c for c in content if c != ''] or ['F']
                fkw = {}
                st = rnd.choice(['none', 'none', 'cond', 'define', 'repeat'])
                if st == 'cond':
                    fkw['condition'] = py('fc')
                elif st == 'define':
                    fkw['define'] = [['local', 'fl', py('v + 7')]]
                    content.append(I('fl'))
                elif st == 'repeat':
                    # the repeated element is a child on its own line: the separator of a repeat on the filler
                    # element itself would be the caller's whitespace before it (C08's subject, not METAL's)
                    content.append(el('k', I('j'), I("item | 'noitem'"), indent=6, repeat=['j', py('seq')]))
                fills.append(el(rnd.choice(['em', 'q']), *content, fill_slot=sn, **fkw))
        if rnd.random() < 0.3:
            fills.insert(0, 'discarded')
        place = rnd.choice(['plain', 'twice', 'in-repeat', 'define-on-use', 'cond-on-use'])
        u = use('g', *copy.deepcopy(fills))
        if place == 'twice':
            site = [u, '+', use('g', *copy.deepcopy(fills[:1]))]
        elif place == 'in-repeat':
            site = [el('li', u, indent=2, repeat=['item', py('seq')])]
        elif place == 'define-on-use':
            site = [use('g', *copy.deepcopy(fills), define=[['local', 'v', py('v + 3')]])]
        elif place == 'cond-on-use':
            site = [use('g', *copy.deepcopy(fills), condition=py('fc'))]
        else:
            site = [u]
        shown = rnd.random() < 0.4
        head = macro if shown else el('hide', macro, condition=py('False'))
        if rnd.random() < 0.35:
            # a second macro with a slot named like a filler the first one may not define, used afterwards unfilled
            other = el('q', 'o[', el('b', 'od ', I('v'), define_slot=rnd.choice(['zz', 'x', 'y'])), ']', define_macro='h')
            head = el('hide', macro, other, condition=py('False')) if not shown else el('both', macro, other)
            site = site + ['~', use('h')]
        tree = el('div', head, '|', *site, '|', P('loc'), P('glob'), P('macroname'), P('item'))
        out.append(('gen-%d-%d' % (seed, n), None, tree, vars_))
    return out


def whole_template_program():
    lib = {'tag': 'article', 'children': ['T[', {'tag': 'b', 'children': ['slot-default'], 'define_slot': 's'}, ']',
                                          {'interp': py('v')}]}
    caller = {'tag': 'div', 'children': [{'tag': 'u', 'children': [{'tag': 'i', 'children': ['filled'], 'fill_slot': 's'}],
                                          'use_macro': 'lib', 'use_name': '__whole__'}]}
    inlined = {'tag': 'div', 'children': [{'tag': 'tal:block', 'define': [['local', 'macroname', py("'lib'")]],
                                           'children': [{'tag': 'article', 'children': [
                                               'T[', {'tag': 'i', 'children': ['filled']}, ']', {'interp': py('v')}]}]}]}
    return ('whole-template', lib, caller, inlined, [['v', 'int', 0]])


def build_jobs(tier):
    jobs = []
    for label, lib, caller, vars_ in programs(tier) + generated(150 if tier == "quick" else 1500, SEED[0]):
        macros = {}
        if lib is not None:
            mi.collect_macros(lib, macros)
        mi.collect_macros(caller, macros)
        inlined = mi.inline(copy.deepcopy(caller), macros)
        assert len(inlined) == 1
        jobs.append({'label': label, 'lib': lib, 'caller': caller, 'inlined': inlined[0], 'vars': vars_})
    label, lib, caller, inlined, vars_ = whole_template_program()
    jobs.append({'label': label, 'lib': lib, 'caller': caller, 'inlined': inlined, 'vars': vars_})
    return jobs


def plan(tier, seed):
    quick = tier == 'quick'
    SEED[0] = seed
    jobs = build_jobs(tier)
    by = {j['label']: j for j in jobs}
    fam = dict(name='metal_inlining', module=H, fn='H', jobs=jobs, timeout=300 if quick else 900, batch=2, vacuity=2,
               program_key='label',
               mutants=[{'name': 'no_global_merge', 'cfg': by['locals-globals']},
                        {'name': 'extend_drops_appendleft', 'cfg': by['extend-2-caller-fills']},
                        {'name': 'slot_default_when_filled', 'cfg': by['slot-x']},
                        {'name': 'fill_left_behind', 'cfg': by['unknown-fill-then-other-macro']}])
    wj = [{'file': f, 'use': u, 'n': 2 if quick else 3} for f in (False, True) for u in (0, 1, 2)]
    famW = dict(name='library_rewritten', module=H, fn='rewritten', jobs=wj, timeout=300 if quick else 1500, vacuity=1,
                mutants=[{'name': 'macros_memoised', 'cfg': wj[0]}])
    return dict(
        level='translation_validation',
        functions=['chameleon.compiler:Compiler.visit_UseExternalMacro', 'chameleon.compiler:Compiler.visit_UseInternalMacro',
                   'chameleon.compiler:Compiler.visit_DefineSlot', 'chameleon.compiler:Compiler.visit_Macro',
                   'chameleon.compiler:Compiler.visit_MacroProgram', 'chameleon.zpt.program:MacroProgram.visit_element',
                   'chameleon.zpt.template:Macros.__getitem__', 'chameleon.zpt.template:PageTemplate.include',
                   'chameleon.utils:Scope.copy'],
        bounds=('%d (macro library, caller) pairs with their hand-inlined METAL-free equivalents: macros with 0-2 slots, '
                'repeated slot names, every fill pattern (none/subset/all/unknown), use inside repeat and inside a '
                'fill-slot, an unknown filler followed by another macro with a slot of that name, nested uses, extend-macro chains of length 2 and 3 with re-offered slots, macros of another '
                'template, a whole template used as macro, local/global definitions inside macro bodies incl. global '
                're-assignment across several uses, macroname; bindings (ints, flags, sequence lengths 0..3) decided by '
                'the solver; histories of %d steps over a library with 3 versions (string template re-written with write(), auto-reloading file template whose file changes), each step touching the library through macros[...], render(), macros.names, whole-template use or not at all before a caller (3 forms of use) renders: always the current version. Outside: depth > 3, fill-slot fillers of an extender that do not re-offer the slot while the '
                'caller fills it too (METAL leaves the winner open), macro/slot names containing dots.' % (len(jobs), 2 if quick else 3)),
        assumptions=['metamorphic relation: the inliner vlib/metal_inline.py encodes the METAL semantics the property '
                     'states; both templates are compiled and rendered by the real implementation'],
        families=[fam, famW],
    )
