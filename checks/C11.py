"""C11 -- template errors surface as TemplateError with the exact source location (DESIGN.md 4, C11)."""
H = 'checks.hC11'


def plan(tier, seed):
    quick = tier == 'quick'
    S4 = [0, 1, 2, 3]
    S3 = [0, 1, 2]
    ops = []
    base = S3 if quick else S4
    ops.append({'shape': base, 'op': 'slice'})
    ops.append({'shape': ['ab', 0, 1], 'op': 'slice'})
    ops.append({'shape': base, 'op': 'strip'})
    ops.append({'shape': base, 'op': 'strip_chars', 'chars': '()'})
    ops.append({'shape': ['(', 0, ',', 1, ')'], 'op': 'strip_chars', 'chars': '()'})
    ops.append({'shape': base, 'op': 'split_sep', 'sep': ';'})
    ops.append({'shape': base, 'op': 'split_sep', 'sep': ','})
    ops.append({'shape': base, 'op': 'split_ws'})
    ops.append({'shape': base, 'op': 'split_max', 'sep': ';'})
    ops.append({'shape': ['a', 0, ';', 1, 'b;', 2], 'op': 'split_sep', 'sep': ';'})
    famT = dict(name='token_operations', module=H, fn='tok_op', jobs=ops, timeout=600 if quick else 2400, vacuity=1,
                mutants=[{'name': 'strip_chars_pos', 'cfg': {'shape': ['(', 0, ',', 1, ')'], 'op': 'strip_chars', 'chars': '()'}},
                         {'name': 'lstrip_pos', 'cfg': {'shape': S3, 'op': 'strip'}}])
    prods = [
        {'shape': ['a ', 0, ';', 1, 'b ', 2], 'fn': 'defines'},
        {'shape': [0, 'a ', 1, 'e'], 'fn': 'defines'},
        {'shape': ['global a ', 0, '; local b', 1, 'x'], 'fn': 'defines'},
        {'shape': ['(a,', 0, 'b) ', 1, ';', 2], 'fn': 'defines'},
        {'shape': ['a', 0, 'e', 1, ';b f'], 'fn': 'defines'},
        {'shape': ['a ', 0, ';', 1, 'b ', 2], 'fn': 'attributes'},
        {'shape': [0, 'k ', 1, 'v'], 'fn': 'attributes'},
        {'shape': ['k v;', 0, 1, 'd'], 'fn': 'attributes'},
        {'shape': [0, 1, 'x', 2], 'fn': 'substitution'},
        {'shape': ['structure', 0, 1, 'x'], 'fn': 'substitution'},
        {'shape': S3 if quick else S4, 'fn': 'split_parts'},
        {'shape': ['a m', 0, ';', 1, 'b'], 'fn': 'i18n_attributes'},
        {'shape': ['a', 0, 'm', 1, 'n'], 'fn': 'i18n_attributes'},
    ]
    if not quick:
        prods += [{'shape': ['a ', 0, 1, ';', 2, 'b ', 3], 'fn': 'defines'},
                  {'shape': ['a ', 0, 1, ';', 2, 'b ', 3], 'fn': 'attributes'},
                  {'shape': ['a 1;', 0, 'b 2;', 1, 'c', 2, '3'], 'fn': 'defines'}]
    famP = dict(name='statement_parsers', module=H, fn='producer', jobs=prods, timeout=600 if quick else 2400,
                vacuity=1, mutants=[{'name': 'groups_span_off', 'cfg': prods[1]}])
    locs = [{'shape': [0, 1, 2, 3, 'ab']}, {'shape': ['a', 0, 'b\n', 1, 'c', 2]}]
    famL = dict(name='line_column', module=H, fn='location', jobs=locs, timeout=600, vacuity=1, mutants=[])
    fe = [
        {'shape': [0, 1, 2], 'pre': '<p tal:define="', 'post': '">t</p>'},
        {'shape': ['a 1;', 0, 1, 2], 'pre': '<div>\n <p tal:define="', 'post': '">t</p></div>'},
        {'shape': ['a 1; b', 0, '2;', 1], 'pre': '<p x="1" tal:attributes="', 'post': '">t</p>'},
        {'shape': [0, 1, 2], 'pre': '<p tal:repeat="', 'post': '">t</p>'},
        {'shape': ['structure', 0, 1], 'pre': '<p tal:content="', 'post': '">t</p>'},
        {'shape': [0, 1], 'pre': '<p meta:interpolation="', 'post': '">t</p>'},
    ]
    famF = dict(name='frontend_error_tokens', module=H, fn='frontend_error', jobs=fe, timeout=600 if quick else 2400,
                vacuity=1, mutants=[{'name': 'groups_span_off', 'cfg': fe[1]}])
    acc = [{'shape': ['<a k="', 0, 1, '">', 2, '</a>']}, {'shape': ["<a k='v", 0, "' j=\"", 1, '"/>', 2]},
           {'shape': ['<!-- ', 0, ' -->', 1]}, {'shape': ['<a>', 0, '<b>', 1, '</b>', 2, '</a>']}]
    famA = dict(name='valid_never_rejected', module=H, fn='accept', jobs=acc, timeout=600, vacuity=1, mutants=[])
    famN = dict(name='valid_names_accepted', module=H, fn='valid_names', jobs=[{}], timeout=300, vacuity=1, mutants=[])
    from checks.hC11 import ERR_CLAUSES
    names = [n for n, _ in ERR_CLAUSES]
    groups = [names[i:i + 3] for i in range(0, len(names), 3)]
    hj = [{'clauses': g, 'steps': 2 if quick else 3} for g in groups]
    famH = dict(name='compile_histories', module=H, fn='compile_history', jobs=hj, timeout=600 if quick else 2400,
                vacuity=1, mutants=[{'name': 'memo_parse_defines', 'cfg': {'clauses': ['define-expr', 'reserved-define'], 'steps': 2}},
                                    {'name': 'memo_expression_compiler', 'cfg': {'clauses': ['content-expr', 'interpolation'], 'steps': 2}},
                                    {'name': 'expression_error_token_flattened', 'cfg': {'clauses': ['multiline-content', 'multiline-interpolation'], 'steps': 1}}])
    return dict(
        level='model_checking',
        functions=['chameleon.tokenize:Token.__getitem__', 'chameleon.tokenize:Token.split',
                   'chameleon.tokenize:Token.strip', 'chameleon.tokenize:Token.lstrip', 'chameleon.tokenize:Token.rstrip',
                   'chameleon.tokenize:Token.location', 'chameleon.parser:groups', 'chameleon.parser:groupdict',
                   'chameleon.tal:split_parts', 'chameleon.tal:parse_defines', 'chameleon.tal:parse_attributes',
                   'chameleon.tal:parse_substitution', 'chameleon.i18n:parse_attributes',
                   'chameleon.zpt.program:MacroProgram.visit_element', 'chameleon.zpt.program:validate_attributes',
                   'chameleon.utils:decode_htmlentities', 'chameleon.exc:TemplateError', 'chameleon.tales:ExpressionParser.__call__',
                   'chameleon.compiler:ExpressionTransform.__call__', 'chameleon.compiler:Compiler.visit_Assignment'],
        bounds=('inductive kernel: each Token operation (slice with any bounds in [-6,6]/None, strip/lstrip/rstrip with '
                'and without chars, split(sep), split(), split(sep, 1)) on a token that locates itself, text of up to %d '
                'symbolic code points at a fixed non-zero offset of a larger source; producers parse_defines / '
                'parse_attributes / parse_substitution / split_parts / i18n.parse_attributes on %d clause shapes (2-4 '
                'symbolic code points); Token.location against the closed form with symbolic newlines; whole front end '
                'on %d templates with a symbolic statement argument: a raised TemplateError token must locate itself '
                'in the document; %d well-formed skeletons with symbolic text/attribute characters must never be '
                'rejected; compile histories: %d erroneous clauses (invalid expression in define / second define part / '
                'content / behind not: / ${} in text and attribute / tal:attributes, reserved names in define, tuple '
                'define and repeat, malformed define, unknown statement, content+replace, stray end tag, duplicate '
                'i18n:attributes, expressions written over several lines) each behind one of 6 paddings (other offsets, lines and columns), %d compilations one '
                'after the other in one process for every choice of clause and padding (the choice is the solver\'s, each '
                'compilation is concrete): token, offset, line and column must be those of the compilation that raised. '
                'Outside: error tokens of symbolic expressions (Python parser is a C boundary), ";;" escapes and '
                'entities in statement arguments (known finding).'
                % (3 if quick else 4, len(prods), len(fe), len(acc), len(names), 2 if quick else 3)),
        assumptions=['validity of a token: source[pos:pos+len(token)] == token',
                     'front end executed with the stubbed static-attribute repr (as in C03)'],
        families=[famT, famP, famL, famF, famA, famN, famH],
    )
