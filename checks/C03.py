"""C03 -- unmarked markup verbatim; tokenising/parsing lose nothing (DESIGN.md section 4, C03)."""
import itertools
import random

H = 'checks.hC03'

# tag skeletons as piece lists; symbolic characters are inserted at the gaps between pieces
SKELETONS = [
    ['<x', ' ', 'k', '=', '"', 'v', '"', '>'],
    ['<x', ' ', 'k', '=', "'", 'v', "'", '/>'],
    ['<x', ' ', 'k', '=', 'v', '>'],
    ['<x', ' ', 'k', '>'],
    ['<x', ' ', 'k', ' = ', '"v"', ' ', 'j', '>'],
    ['</x', ' ', '>'],
    ['<p:x', ' ', 'a:k', '=', '"v"', '>'],
]
# gap positions that make the symbolic character part of a *name* (expensive: Unicode \d/\s tables)
# (skeleton, gap positions at which an inserted character would be part of an *attribute name*:
# names become dict keys in the front end (hashing realises), so they stay concrete in this family
# and symbolic names are covered by the tag_dissection family)
DOCS_N = [
    (['<a>', 't', '</a>'], ()),
    (['<a', ' ', 'k="v"', '>', 't', '</a', '>'], (2,)),
    (['<!--', 'c', '-->'], ()),
    (['<![CDATA[', 'c', ']]>'], ()),
    (['<!DOCTYPE', ' ', 'html', '>'], ()),
    (['<?pi', ' ', 'x', '?>'], ()),
    (['<a', ' ', 'k=', 'v', '/>'], (2,)),
    (['&', 'amp', ';'], ()),
    (['<a', ' ', "k='v'", ' ', 'j', '>'], (2, 4, 5)),
]
DOCS = [d for d, _ in DOCS_N]


def holes(skel, k, forbidden=()):
    """all shapes obtained by inserting k symbolic chars at gap positions (with repetition)."""
    n = len(skel)
    out = []
    for gaps in itertools.combinations_with_replacement(
            [g for g in range(1, n + 1) if g not in forbidden], k):
        shape, idx = [], 0
        for i, piece in enumerate(skel):
            shape.append(piece)
            for g in gaps:
                if g == i + 1:
                    shape.append(idx)
                    idx += 1
        # merge adjacent strings
        merged = []
        for p in shape:
            if merged and isinstance(p, str) and isinstance(merged[-1], str):
                merged[-1] += p
            else:
                merged.append(p)
        out.append(merged)
    return out


def name_position(shape):
    """symbolic char directly after '<', '</' or blank+nothing: it is (part of) a name start."""
    for i, p in enumerate(shape):
        if isinstance(p, int) and i > 0 and isinstance(shape[i - 1], str):
            prev = shape[i - 1]
            nxt = shape[i + 1] if i + 1 < len(shape) else ''
            if prev.endswith(('<', '</', ' ')) and isinstance(nxt, (str, int)):
                if prev.endswith(' ') and isinstance(nxt, str) and nxt[:1] in ('=', '>', '/', ' '):
                    return True
                if prev.endswith(('<', '</')):
                    return True
    return False


def plan(tier, seed):
    rnd = random.Random(seed)
    quick = tier == 'quick'
    tag1 = [s for sk in SKELETONS for s in holes(sk, 1)]
    tag2 = [s for sk in SKELETONS for s in holes(sk, 2)]
    doc1 = [s for sk, fb in DOCS_N for s in holes(sk, 1, fb)]
    doc2 = [s for sk, fb in DOCS_N for s in holes(sk, 2, fb)]
    if quick:
        tag_jobs = [s for s in tag1 if not name_position(s)]
        t2 = [s for s in tag2 if not name_position(s)]
        rnd.shuffle(t2)
        tag_jobs += t2[:12]
        doc_jobs = list(doc1)
        # two symbolic characters with one of them extending the element name: thorough tier only
        d2 = [s for s in doc2 if not (len(s) > 1 and isinstance(s[1], int) and s[0].startswith('<'))]
        rnd.shuffle(d2)
        doc_jobs += d2[:10]
        tok = [[0], [0, 1], [0, 1, 2]]
        nl = [[0, 1, 2]]
        to_tag, to_doc, to_tok = 240, 300, 240
    else:
        tag_jobs = tag1 + rnd.sample(tag2, min(len(tag2), 70))
        doc_jobs = doc1 + rnd.sample(doc2, min(len(doc2), 50))
        tok = [[0], [0, 1], [0, 1, 2], [0, 1, 2, 3], ['<', 0, 1, 2, 3], [0, 1, 2, 3, 4]]
        nl = [[0, 1, 2], [0, 1, 2, 3], ['a', 0, 1, 'b', 2, 3]]
        to_tag, to_doc, to_tok = 900, 900, 900
    # a valueless attribute followed by an attribute whose *name* is symbolic (names are not dict keys here)
    tag_jobs += [['<x b ', 0, '="v">'], ['<x b ', 0, 1, '="v">'], ['<x b', 0, 1, '=v c>'], ['<x ', 0, ' ', 1, '=v>']]
    # tag soup: text inside a tag that is not attribute syntax (kept verbatim since fix 1a5be7d)
    soup = [['<x k="', 0, ' j=f>t</x>'], ['<x k=c"', 0, ' e=f>t</x>'], ['<x k = ', 0, '>t</x>'], ['<x k = ', 0, ' j="1">t</x>'],
            ['<a>t</a ', 0, '<b>x</b>'], ['<x k="1"', 0, ' j=\'2\'>t</x>']]
    tag_jobs += [sh for sh in soup if sh[0].startswith('<x')]
    doc_jobs += soup
    fam_cache = dict(name='verbatim_through_shared_module_cache', module=H, fn='cached_pair', jobs=[{}], timeout=900, vacuity=1,
                     mutants=[{'name': 'digest_folds_line_endings', 'cfg': {}}])
    fam_rw = dict(name='one_template_object_across_document_kinds', module=H, fn='rewritten_kinds', jobs=[{}], timeout=900, vacuity=1,
                  mutants=[{'name': 'content_type_sticks', 'cfg': {}}])
    # attributes that share one name (or one namespace and name): nothing after them is lost
    doc_jobs += [['<a b="1" b="2" c="3"', 0, '>t</a>'], ['<html lang="en" xml:lang="en" dir="ltr"', 0, '>t</html>'],
                 ['<a b="1" B="2" b=\'3\' c="', 0, '">t</a>']]
    fams = [
        dict(name='iter_xml_tiles', module=H, fn='tok_tiles', jobs=[{'shape': s} for s in tok],
             timeout=to_tok, vacuity=1,
             mutants=[{'name': 'TextSE_narrow', 'cfg': {'shape': [0, 1]}},
                      {'name': 'iter_xml_pos', 'cfg': {'shape': [0, 1]}}]),
        dict(name='tag_dissection_tiles', module=H, fn='tag_tiles',
             jobs=[{'shape': s} for s in tag_jobs], timeout=to_tag, vacuity=1,
             mutants=[{'name': 'attr_space_collapsed', 'cfg': {'shape': ['<x ', 0, 'k="v">']}}]),
        dict(name='frontend_emitters_verbatim', module=H, fn='verbatim',
             jobs=[{'shape': s} for s in doc_jobs], timeout=to_doc, vacuity=1,
             mutants=[{'name': 'end_space_doubled', 'cfg': {'shape': ['<a>t</a', 0, '>']}},
                      {'name': 'attr_quote_normalised', 'cfg': {'shape': ["<a k='v'", 0, '>']}}]),
        dict(name='newline_normalisation', module=H, fn='newlines', jobs=[{'shape': s} for s in nl],
             timeout=to_tok, vacuity=1,
             mutants=[{'name': 'crlf_only', 'cfg': {'shape': [0, 1, 2]}}]),
    ]
    return dict(
        level='model_checking',
        functions=['chameleon.tokenize:iter_xml', 'chameleon.tokenize:Token',
                   'chameleon.parser:match_tag', 'chameleon.parser:identify',
                   'chameleon.parser:groupdict', 'chameleon.parser:ElementParser',
                   'chameleon.program:ElementProgram',
                   'chameleon.zpt.program:MacroProgram.visit_element',
                   'chameleon.zpt.program:MacroProgram.visit_text',
                   'chameleon.zpt.program:MacroProgram.visit_comment',
                   'chameleon.zpt.program:MacroProgram.visit_cdata',
                   'chameleon.zpt.program:MacroProgram.visit_default',
                   'chameleon.zpt.program:MacroProgram.visit_processing_instruction',
                   'chameleon.zpt.program:MacroProgram._create_attributes_nodes',
                   'chameleon.tal:prepare_attributes',
                   'chameleon.compiler:Compiler.visit', 'chameleon.compiler:Compiler.visit_Start',
                   'chameleon.compiler:Compiler.visit_End',
                   'chameleon.compiler:Compiler.visit_Attribute',
                   'chameleon.compiler:Compiler.visit_Text',
                   'chameleon.compiler:Compiler.visit_Element',
                   'chameleon.compiler:Compiler.visit_Define',
                   'chameleon.zpt.template:PageTemplate.parse'],
        bounds=('lexer totality: no length bound (regular-language inclusion). iter_xml: all strings of '
                'length <= %d over all 1,114,112 code points. tag dissection / front end + emitters: %d + %d '
                'enumerated shapes (tag/document skeletons with %s symbolic code point(s) at the gaps), all '
                'code points per symbolic position; attribute and element *names* are concrete in the '
                'front-end family (they become dict keys). newline chain: <= %d symbolic characters; every sequence of 3 statement-free documents from a pool of 6 (XML documents differing only in their line endings, HTML documents) compiled through one on-disk module cache renders each as written; every sequence of 3 documents from a pool of 8 given to one template object (write(), or an auto-reloading file template) renders the current one; a namespace declaration (3 template-language URIs, a foreign one) on an empty element followed by siblings that use the prefix as element / attribute prefix: only the declaration of a language namespace is dropped; 5 documents with data-* attributes that spell no statement (xml, xmlns and declared foreign prefixes) render verbatim with enable_data_attributes on and off. '
                'Outside: longer symbolic stretches, whole-pipeline compile()+render of a symbolic document, '
                'element nesting beyond the skeletons.' % (
                    3 if quick else 5, len(tag_jobs), len(doc_jobs), '1' if quick else '1-2',
                    3 if quick else 4)),
        assumptions=[
            'CrossHair string/regex models and the chsym plugin are faithful (validated by native replay '
            'of every counter-example and by the seeded in-memory mutants)',
            'ExpressionTransform is replaced by a no-op in the emitter family: statement-free documents '
            'contain no expression except the internal attrs alias',
            'MacroProgram._create_static_attributes (repr+parse, C boundary) stubbed: feeds the attrs alias only',
            'a rejection (TemplateError, undefined namespace prefix, undissectable tag token) is not a C03 '
            'violation: the statement is conditional on the document compiling',
        ],
        families=fams + [fam_cache, fam_rw, dict(name='foreign_data_attributes_under_option', module=H, fn='data_option_verbatim', jobs=[{}],
                                       timeout=600, vacuity=1, mutants=[{'name': 'data_conversion_any_bound_prefix', 'cfg': {}}]), dict(name='empty_tag_namespace_scope', module=H, fn='empty_tag_scope', jobs=[{}],
                                       timeout=600, vacuity=1, mutants=[{'name': 'empty_tag_shares_scope', 'cfg': {}}])],
        extra=z_queries,
    )


def z_queries(rep, tier, seed):
    """Engine Z: lexer totality from the live pattern, no length bound."""
    import z3
    from chameleon.tokenize import collector
    from vlib import relang as R
    pat = collector.res['XML_SPE']
    s = z3.String('s')
    rx = R.translate(pat, approx='under')
    cons = [z3.Length(s) > 0, z3.Not(z3.InRe(s, z3.Concat(rx, R.ALL)))]
    r, m, dt = R.check(cons)
    rep.zquery('lexer_totality', 'Sigma+ subset L(XML_SPE).Sigma* (under-approximated look-aheads)', r,
               'unsat', dt, detail={'pattern_sha': hash(pat) & 0xffffffff, 'len': len(pat)}, handled=True)
    if r == 'sat':
        w = R.z3_unescape(R.model_str(m, s))
        from chameleon.tokenize import iter_xml
        toks = list(iter_xml(w))
        if ''.join(toks) != w:
            rep.violation('lexer_totality', 'iter_xml skips input %r -> %r' % (w, toks),
                          {'replay_module': 'checks.C03', 'input': w})
        else:
            rep.inconclusive.append('lexer totality query sat (%r) but does not reproduce' % w)
    # diff a second solver once
    r2 = R.smtlib_check_with_binary(cons)
    rep.zquery('lexer_totality', 'same query, z3 4.8.12 binary', r2, 'unsat', 0.0, solver='z3-4.8.12', cross=True)
    # vacuity twin: without the property conjunct the query must be sat
    r3, _, dt3 = R.check([z3.Length(s) > 0])
    rep.zquery('lexer_totality', 'vacuity twin (property conjunct removed)', r3, 'sat', dt3)
    # seeded mutant: narrowed TextSE must be refuted
    bad = R.translate(pat.replace('[^<]+|', '[^<&]+|', 1), approx='under')
    r4, m4, dt4 = R.check([z3.Length(s) > 0, z3.Not(z3.InRe(s, z3.Concat(bad, R.ALL)))])
    rep.zquery('lexer_totality', 'mutant TextSE=[^<&]+ must be refuted', r4, 'sat', dt4,
               detail={'witness': R.model_str(m4, s) if m4 is not None else None})


def replay(rp):
    from chameleon.tokenize import iter_xml
    w = rp['input']
    ok = ''.join(iter_xml(w)) == w
    print('iter_xml(%r) tiles: %s' % (w, ok))
    return 0 if ok else 1
