def plan(tier, seed):
    shapes = [[0], [0, 1], [0, 1, 2]]
    fam = dict(name='iter_xml_tiles', module='checks.hC03', fn='tok_tiles',
               jobs=[{'shape': s} for s in shapes], timeout=120, vacuity=1,
               mutants=[{'name': 'TextSE_narrow', 'cfg': {'shape': [0, 1]}},
                        {'name': 'iter_xml_pos', 'cfg': {'shape': [0, 1]}}])
    return dict(level='model_checking', functions=['chameleon.tokenize:iter_xml'],
                bounds='strings of length <= 3 over all code points', assumptions=[],
                families=[fam])
