"""C01 -- TAL statements: semantics and one fixed order (DESIGN.md section 4, C01)."""
import itertools
import random

from vlib.tprog import py

H = 'checks.hG'


def element(defn, cond, rep, cont, omit, attrs, inner=None):
    """One statement-carrying element inside a fixed parent.  Variable slots:
    i0 cond-class / b0 cond-bool, i1 sequence length (4 => None), i2 content class, b3 omit flag,
    i4 attribute class, i5 define value."""
    el = {'tag': 'p', 'static': [['class', 's'], ['id', 'e']], 'indent': 2,
          'children': ['T', inner or {'tag': 'i', 'children': ['k']}, 'U']}
    vars_ = []
    if defn:
        el['define'] = [['local', 'd', py("rec('d', dv)")]]
        vars_.append(['dv', 'int', 5])
    if cond:
        el['condition'] = py("rec('c', cv)")
        vars_.append(['cv', 'bool', 0] if cond == 'bool' else ['cv', 'cls', 0])
    if rep:
        el['repeat'] = ['x', py("rec('r', seq)")]
        vars_.append(['seq', 'lenN', 1])
    if cont:
        kind, mode = cont
        src = "rec('t', tv)" if not defn else "rec('t', tv if tv != 2 else d)"
        el[kind] = [mode, py(src)]
        vars_.append(['tv', 'cls', 2])
    if omit == 'always':
        el['omit'] = ''
    elif omit == 'expr':
        el['omit'] = py("rec('o', ov)")
        vars_.append(['ov', 'bool', 3])
    if attrs == 'static':
        el['attributes'] = [['class', py("rec('a', av)")]]
        vars_.append(['av', 'cls', 4])
    elif attrs == 'new':
        el['attributes'] = [['title', py("rec('a', av)")]]
        vars_.append(['av', 'cls', 4])
    elif attrs == 'both':
        el['attributes'] = [['title', py("rec('a1', av)")], ['CLASS', py("rec('a2', x if False else av)")
                                                             if False else py("rec('a2', av)")]]
        vars_.append(['av', 'cls', 4])
    return el, vars_


def wrap_root(el):
    return {'tag': 'div', 'children': ['A', el, 'B'], 'close_indent': 0}


def orders(el, rnd, how):
    names = [s for s in ('define', 'condition', 'repeat', 'content', 'replace', 'omit', 'attributes',
                         'switch', 'case') if s in el]
    if len(names) <= 1:
        return [names]
    if how == 'all' and len(names) <= 3:
        return [list(p) for p in itertools.permutations(names)]
    out = [list(reversed(names))]
    if how != 'one':
        out.append(names[1:] + names[:1])
        p = list(names)
        rnd.shuffle(p)
        out.append(p)
    else:
        p = list(names)
        rnd.shuffle(p)
        out = [p]
    return out


def single_grid():
    for defn in (False, True):
        for cond in (None, 'bool'):
            for rep in (False, True):
                for cont in (None, ('content', 'text'), ('content', 'structure'),
                             ('replace', 'text'), ('replace', 'structure')):
                    for omit in (None, 'always', 'expr'):
                        for attrs in (None, 'static', 'new'):
                            yield defn, cond, rep, cont, omit, attrs


def weight(combo):
    defn, cond, rep, cont, omit, attrs = combo
    w = 1
    if cond:
        w *= 2
    if rep:
        w *= 5
    if cont:
        w *= 8
    if omit == 'expr':
        w *= 2
    if attrs:
        w *= 8
    return w


def nested_programs():
    """depth 2: outer statement x inner statement-carrying child"""
    inners = {
        'cond': {'tag': 'i', 'condition': py("rec('ic', icv)"), 'children': ['k']},
        'content': {'tag': 'i', 'content': ['text', py("rec('it', itv)")], 'children': ['k']},
        'repeat': {'tag': 'i', 'indent': 4, 'repeat': ['y', py("rec('ir', iseq)")],
                   'children': [{'interp': py('y')}]},
        'define': {'tag': 'i', 'define': [['local', 'd', py("rec('id', 7)")]],
                   'content': ['text', py("rec('it', d)")], 'children': ['k']},
        'replace': {'tag': 'i', 'replace': ['text', py("rec('it', itv)")], 'children': ['k']},
        'omit': {'tag': 'i', 'omit': py("rec('io', icv)"), 'children': ['k']},
    }
    inner_vars = {'cond': [['icv', 'bool', 1]], 'content': [['itv', 'cls', 4]],
                  'repeat': [['iseq', 'lenN', 4]], 'define': [], 'replace': [['itv', 'cls', 4]],
                  'omit': [['icv', 'bool', 1]]}
    outers = [
        (False, 'bool', False, None, None, None),
        (False, None, True, None, None, None),
        (True, None, False, None, None, None),
        (False, None, False, ('content', 'text'), None, None),
        (False, None, False, ('replace', 'text'), None, None),
        (False, None, False, None, 'expr', None),
        (False, 'bool', True, None, None, 'new'),
    ]
    for o in outers:
        for k, inner in inners.items():
            defn, cond, rep, cont, omit, attrs = o
            ivars = inner_vars[k]
            # slot clashes: outer repeat uses slot 1, inner bool uses b1 (separate space) -- fine
            el, vars_ = element(defn, cond, rep, cont, omit, attrs, inner=dict(inner))
            if any(v[2] == iv[2] and (v[1] == 'bool') == (iv[1] == 'bool')
                   for v in vars_ for iv in ivars):
                continue
            yield el, vars_ + ivars, 'nest:%s/%s' % (o, k)


def switch_programs():
    """parent with tal:switch, children with tal:case (values, default) -- plus condition/define on a
    child.  switch value sv in [0,3); case constants 0, 1, default."""
    def child(tag, case_src, extra=None):
        c = {'tag': tag, 'case': py(case_src), 'children': [tag.upper()]}
        if extra:
            c.update(extra)
        return c
    variants = [
        [child('a', "rec('k0', 0)"), child('b', "rec('k1', 1)"), child('c', "rec('kd', default)")],
        [child('a', "rec('k0', 0)"), child('b', "rec('k0b', 0)"), child('c', "rec('kd', default)")],
        [child('a', "rec('kd', default)"), child('b', "rec('k1', 1)")],
        [child('a', "rec('k0', 0)", {'condition': py("rec('cc', cv)")}),
         child('b', "rec('kd', default)")],
        [child('a', "rec('k0', kv)"), child('b', "rec('k1', 1)", {'define': [['local', 'z', py("rec('cd', 3)")]],
                                                                   'content': ['text', py('z')]})],
    ]
    for i, kids in enumerate(variants):
        parent = {'tag': 'p', 'indent': 2, 'switch': py("rec('s', sv)"), 'children': kids}
        vars_ = [['sv', 'int', 0]]
        if i == 3:
            vars_.append(['cv', 'bool', 0])
        if i == 4:
            vars_.append(['kv', 'int', 1])
        yield parent, vars_, 'switch:%d' % i
        if i in (0, 2):
            p2 = dict(parent)
            p2['define'] = [['local', 'q', py("rec('sd', 1)")]]
            yield p2, vars_, 'switch+define:%d' % i
            # switch and repeat on one element: every repetition renders the matching case
            p3 = dict(parent)
            p3['repeat'] = ['x', py("rec('r', seq)")]
            yield p3, vars_ + [['seq', 'lenN', 1]], 'switch+repeat:%d' % i
            p4 = dict(parent)
            p4['condition'] = py("rec('c', cv2)")
            yield p4, vars_ + [['cv2', 'bool', 2]], 'switch+condition:%d' % i
    # a switch inside the matching case of another switch: every case belongs to the nearest switch
    inner = {'tag': 'q', 'indent': 4, 'switch': py("rec('s2', sv2)"),
             'children': [child('x', "rec('j0', 0)"), child('y', "rec('j1', 1)"), child('z', "rec('jd', default)")]}
    kids = [{'tag': 'a', 'case': py("rec('k0', 0)"), 'children': ['A', inner, 'a']}, child('b', "rec('k1', 1)"),
            child('c', "rec('kd', default)")]
    yield ({'tag': 'p', 'indent': 2, 'switch': py("rec('s', sv)"), 'children': kids},
           [['sv', 'int', 0], ['sv2', 'int', 1]], 'switch-nested')
    rep_inner = {'tag': 'q', 'indent': 4, 'repeat': ['x', py("rec('r', seq)")], 'switch': py("rec('s2', x % 2)"),
                 'children': [child('x', "rec('j0', 0)"), child('y', "rec('jd', default)")]}
    kids = [child('b', "rec('k1', 1)"), {'tag': 'a', 'case': py("rec('kd', default)"), 'children': ['A', rep_inner, 'a']}]
    yield ({'tag': 'p', 'indent': 2, 'switch': py("rec('s', sv)"), 'children': kids},
           [['sv', 'int', 0], ['seq', 'lenN', 1]], 'switch-nested-in-repeat')
    # the switch value depends on the loop variable of the same element (implementation order only: the
    # documented order would evaluate it before the loop variable exists)
    kids = [child('a', "rec('k0', 0)"), child('b', "rec('k1', 1)"), child('c', "rec('kd', default)")]
    yield ({'tag': 'p', 'indent': 2, 'repeat': ['x', py("rec('r', seq)")], 'switch': py("rec('s', x % 3)"),
            'children': kids}, [['seq', 'lenN', 1]], 'switch-on-loop-variable')


def restore_programs():
    """what a local definition / loop variable hides is back afterwards: the name is initially unbound, bound
    to None or bound to a value (symbolic choice); probes inside and after the element"""
    def probe(n, tag):
        return {'tag': 'u', 'children': [tag + '=', {'interp': {'pipe': [py('show(%s)' % n), py("'U'")]}}]}
    d = {'tag': 'p', 'indent': 2, 'define': [['local', 'd', py("rec('d', dv)")]], 'children': [probe('d', 'in')]}
    yield [d, probe('d', 'after')], [['dv', 'int', 5], ['d', 'maybe3', 0]], 'restore:define'
    r = {'tag': 'p', 'indent': 2, 'repeat': ['x', py("rec('r', seq)")], 'children': [probe('x', 'in')]}
    yield [r, probe('x', 'after')], [['seq', 'lenN', 1], ['x', 'maybe3', 0]], 'restore:repeat'
    dr = {'tag': 'p', 'indent': 2, 'define': [['local', 'x', py("rec('d', dv)")]], 'repeat': ['x', py("rec('r', seq)")],
          'children': [probe('x', 'in')]}
    yield [dr, probe('x', 'after')], [['dv', 'int', 5], ['seq', 'lenN', 1], ['x', 'maybe3', 0]], 'restore:define+repeat'
    # the iterable of a loop is evaluated before the loop variable is bound: it may mention its own name
    own = {'tag': 'p', 'indent': 2, 'repeat': ['x', py("rec('r', x)")], 'children': [probe('x', 'in')]}
    yield [own, {'tag': 'u', 'children': ['after=', {'interp': py('len(x)')}]}], [['x', 'iter:list', 0]], 'restore:repeat-over-own-name'
    own2 = {'tag': 'p', 'indent': 2, 'repeat': [['x', 'y'], py("rec('r', x)")], 'children': [probe('x', 'in'), probe('y', 'in2')]}
    yield [own2, {'tag': 'u', 'children': ['after=', {'interp': py('len(x)')}]}], [['x', 'iter:pairs', 0]], 'restore:tuple-repeat-over-own-name'
    # the same multi-name target on nested elements and on define + repeat of one element
    inner = {'tag': 'q', 'indent': 4, 'repeat': [['x', 'y'], py('pairs')], 'children': [probe('x', 'in2')]}
    outer = {'tag': 'p', 'indent': 2, 'repeat': [['x', 'y'], py('pairs')], 'children': [probe('x', 'in'), inner, probe('y', 'in3')]}
    yield [outer, probe('x', 'after'), probe('y', 'after')], [['pairs', 'iter:pairs', 1], ['x', 'maybe3', 0]], 'restore:tuple-nested'
    c = {'tag': 'p', 'indent': 2, 'define': [['local', 'd', py("rec('d', dv)")]], 'condition': py("rec('c', cv)"),
         'children': [probe('d', 'in')]}
    yield [c, probe('d', 'after')], [['dv', 'int', 5], ['cv', 'bool', 0], ['d', 'maybe3', 0]], 'restore:define+condition'


def plan(tier, seed):
    rnd = random.Random(seed)
    quick = tier == 'quick'
    jobs = []
    combos = list(single_grid())
    for combo in combos:
        w = weight(combo)
        if quick and w > 160:
            continue
        if not quick and w > 1300:
            continue
        el, vars_ = element(*combo)
        if 'content' in el and 'replace' in el:
            continue
        how = 'one' if quick else ('all' if w <= 80 else 'some')
        for order in orders(el, rnd, how):
            e2 = dict(el)
            e2['order'] = order
            if rnd.random() < 0.3:
                e2['mix'] = True
            jobs.append({'prog': wrap_root(e2), 'vars': vars_, 'label': 'single:%s' % (combo,)})
    if not quick and len(jobs) > 500:
        # thorough tier: a seeded sample of the single-element grid (the whole grid takes the better part of an hour)
        jobs = rnd.sample(jobs, 500)
    # class-valued condition (None / default / falsy / truthy classes) on a few shapes
    for cont in (None, ('content', 'text')):
        el, vars_ = element(False, 'cls', False, cont, None, None)
        jobs.append({'prog': wrap_root(el), 'vars': vars_, 'label': 'condcls:%s' % (cont,)})
    for el, vars_, label in nested_programs():
        for order in orders(el, rnd, 'one' if quick else 'some'):
            e2 = dict(el)
            e2['order'] = order
            jobs.append({'prog': wrap_root(e2), 'vars': vars_, 'label': label})
    for el, vars_, label in switch_programs():
        for order in orders(el, rnd, 'one' if quick else 'all'):
            e2 = dict(el)
            e2['order'] = order
            jobs.append({'prog': wrap_root(e2), 'vars': vars_, 'label': label})
    # the further value classes (bytes, list, tuple, dict, float, object with markup in its string form, empty
    # containers) at the condition / content / replace / attribute / omit-tag sites
    for combo in ((False, 'cls', False, ('content', 'text'), None, None), (False, None, False, ('replace', 'text'), None, 'static'),
                  (False, 'cls', False, None, None, 'new'), (True, None, False, ('content', 'structure'), None, None),
                  (False, None, True, ('content', 'text'), None, 'static')):
        el, vars_ = element(*combo)
        vars_ = [[n, 'cls_x' if k == 'cls' else k, sl] for n, k, sl in vars_]
        jobs.append({'prog': wrap_root(el), 'vars': vars_, 'label': 'classes-x:%s' % (combo,)})
    # statements written as data-tal-* attributes (enable_data_attributes), with characters in the expressions
    # that are written as entities in attribute values
    dform = {'tag': 'p', 'indent': 2, 'static': [['class', 's']], 'define': [['local', 'd', py("rec('d', dv if dv < 3 else 0)")]],
             'condition': py("rec('c', cv) and 1 < 2"), 'content': ['text', py("rec('t', 'a & b' if d > 0 else \"q'\")")],
             'attributes': [['title', py("rec('a', d) > 1 and 'x<y'")]], 'children': ['k']}
    for sp in (None, 'data'):
        j = {'prog': wrap_root(dform), 'vars': [['dv', 'int', 5], ['cv', 'bool', 0]], 'label': 'entities-in-statements:%s' % sp}
        if sp:
            j['spelling'] = sp
        jobs.append(j)
    # an explicitly empty boolean-attribute configuration switches the boolean treatment off
    battr = {'tag': 'input', 'indent': 2, 'static': [['type', 'checkbox']],
             'attributes': [['checked', py("rec('a', av)")], ['disabled', py("rec('b', bv)")]], 'children': None}
    for cfgv in ([], ['disabled']):
        jobs.append({'prog': wrap_root(battr), 'vars': [['av', 'cls', 4], ['bv', 'cls', 2]],
                     'label': 'boolean-configuration:%s' % (cfgv,), 'options': {'boolean_attributes': cfgv}})
    for kids, vars_, label in restore_programs():
        jobs.append({'prog': {'tag': 'div', 'children': ['A'] + kids + ['B'], 'close_indent': 0}, 'vars': vars_,
                     'label': label})
    mut_cfg1 = {'prog': wrap_root(element(True, None, False, ('content', 'text'), None, None)[0]),
                'vars': [['dv', 'int', 5], ['tv', 'cls', 2]]}
    el_cr, vars_cr = element(False, 'bool', True, None, None, None)
    mut_cfg2 = {'prog': wrap_root(el_cr), 'vars': vars_cr}
    fam = dict(name='tal_single_and_nested', module=H, fn='H', jobs=jobs,
               timeout=240 if quick else 900, batch=4, vacuity=2, program_key='prog',
               mutants=[{'name': 'condition_after_repeat', 'cfg': mut_cfg2},
                        {'name': 'none_content_keeps_children', 'cfg': mut_cfg1}])
    sj = [{'shape': sh} for sh in ([0, 1, 2, 3], ['a 1', 0, 1, 2, 'b 2'], ['a 1;', 0, 1, 2], [0, ';', 1, ';', 2, 'x'],
                                   ['k string:x', 0, 1, 2, ' j', 3])]
    famS = dict(name='clause_splitting', module='checks.hC11', fn='split_texts', jobs=sj, timeout=600, vacuity=1,
                mutants=[{'name': 'split_regex_lookaround', 'cfg': sj[1]}])
    return dict(
        level='translation_validation',
        functions=['chameleon.zpt.program:MacroProgram.visit_element',
                   'chameleon.zpt.program:MacroProgram._make_content_node',
                   'chameleon.zpt.program:MacroProgram._create_attributes_nodes',
                   'chameleon.compiler:Compiler.visit_Define', 'chameleon.compiler:Compiler.visit_Condition',
                   'chameleon.compiler:Compiler.visit_Repeat', 'chameleon.compiler:Compiler.visit_Content',
                   'chameleon.compiler:Compiler.visit_Element', 'chameleon.compiler:Compiler.visit_Cache',
                   'chameleon.compiler:Compiler.visit_Cancel', 'chameleon.compiler:Compiler.visit_Attribute',
                   'chameleon.compiler:emit_func_convert_and_escape', 'chameleon.compiler:emit_func_convert',
                   'chameleon.tal:parse_defines', 'chameleon.tal:parse_attributes',
                   'chameleon.tal:parse_substitution', 'chameleon.tal:split_parts',
                   'chameleon.tal:RepeatDict.__call__', 'chameleon.template:BaseTemplate.render',
                   'chameleon.utils:Scope'],
        bounds=('programs enumerated: %d templates = one statement-carrying element (every subset of '
                'define/condition/repeat/content|replace/omit-tag/attributes whose binding space is <= %d '
                'classes) in %s attribute order(s), 7x6 depth-2 nestings, 12 switch/case families (incl. switch together with repeat / condition on one element and a switch on the loop variable; documented and implemented relative order both admissible), 4 programs probing that the hidden outer binding (unbound / None / value) of a defined or loop variable is back after the element; bindings '
                'decided by the solver per program: condition/omit flags bool, value class index over '
                '[None, default, False, True, 0, 2, "", "a<"] and, on 5 programs, over [bytes, list, tuple, dict, float, object with markup in str(), empty list/dict/bytes], sequence length 0..3 or None, define value int '
                'in [0,4); the splitting of \';\'-separated statement arguments (tal.split_parts) on 5 shapes with 3-4 symbolic code points. Outside: depth > 2, case together with repeat/condition-false on one element '
                '(documentation and implementation order differ), one-shot iterators as values (C08).' % (len(jobs), 160 if quick else 1300,
                                    'one seeded' if quick else 'all (<=3 statements) or three')),
        assumptions=[
            'programs are enumerated (compile() is a C boundary); for each program the verdict over all '
            'bindings in the bound is the solver\'s (CrossHair/z3 executing the generated render function and '
            'the real run-time)',
            'the reference interpreter vlib/refsem.py encodes docs/reference.rst; relative order of '
            'content/omit-tag/attributes evaluation and of case/condition is left free (docs and code differ, '
            'statement silent)',
            'value-class selection is a symbolic index into a concrete table (explored by forking)',
        ],
        families=[fam, famS],
    )
