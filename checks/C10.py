"""C10 -- i18n: message ids, mappings and translation context (DESIGN.md 4, C10)."""
from vlib.tprog import py

HG = 'checks.hG'


def I(src):   # noqa: E743
    return {'interp': py(src)}


def el(tag, *children, **kw):
    d = {'tag': tag, 'children': list(children)}
    d.update(kw)
    return d


def doc(*children, **kw):
    return el('div', *children, close_indent=0, **kw)


def programs(tier):
    out = []
    add = lambda label, prog, vars_=(), **cfg: out.append((label, prog, list(vars_), cfg))   # noqa: E731
    add('implicit-id', doc(el('p', '  Hello \n  world ', i18n_translate='')))
    add('explicit-id', doc(el('p', 'Hello world', i18n_translate='msg-hello')))
    add('empty-content', doc(el('p', '   ', i18n_translate=''), el('q', i18n_translate='')))
    add('names', doc(el('p', 'Hi ', el('b', I('v'), ' <', i18n_name='who'), ' and ', el('i', 'you', i18n_name='other'), '!',
                        i18n_translate='')), [['v', 'int', 0]])
    add('names-explicit-id', doc(el('p', 'Hi ', el('b', I('v'), i18n_name='who'), '!', i18n_translate='greet')),
        [['v', 'int', 0]])
    add('name-under-condition', doc(el('p', 'A ', el('b', 'shown', i18n_name='n1', condition=py('cv')), ' B ',
                                       el('i', 'omitted-tag', i18n_name='n2', omit=py('ov')), ' C', i18n_translate='')),
        [['cv', 'bool', 0], ['ov', 'bool', 1]])
    add('nested-translate', doc(el('p', 'Outer ', el('b', 'inner text', i18n_name='in', i18n_translate=''), ' end',
                                   i18n_translate='')))
    add('domain-context-target', doc(el('a', 'one', i18n_translate=''),
                                     el('x', el('a', 'two', i18n_translate=''),
                                        el('y', el('a', 'three', i18n_translate=''), i18n_context='ctx', i18n_target="'fr'"),
                                        el('a', 'four', i18n_translate=''), i18n_domain='shop'),
                                     el('a', 'five', i18n_translate='')), target_language='de')
    add('same-value-nesting', doc(el('x', el('y', el('a', 'in', i18n_translate=''), i18n_domain='shop', i18n_context='c',
                                             i18n_target="'fr'"),
                                     el('a', 'mid', i18n_translate=''), i18n_domain='shop', i18n_context='c', i18n_target="'fr'"),
                                  el('a', 'after', i18n_translate='')), target_language='de')
    add('aba-nesting', doc(el('x', el('y', el('z', el('a', 'in', i18n_translate=''), i18n_domain='a'),
                                      el('a', 'b-level', i18n_translate=''), i18n_domain='b'),
                              el('a', 'a-level', i18n_translate=''), i18n_domain='a'),
                           el('a', 'top', i18n_translate='')))
    add('target-expression', doc(el('x', el('a', 'in', i18n_translate=''), i18n_target='lang'),
                                 el('x', el('a', 'dflt', i18n_translate=''), i18n_target='default')),
        [['lang', 'int', 0]], target_language='de')
    add('dynamic-content', doc(el('p', 'x', content=['text', py('tv')], i18n_translate='')), [['tv', 'cls_t', 0]], no_default=True)
    add('attributes-static', doc(el('img', static=[['alt', 'Logo'], ['title', 'T <'], ['src', 'a.png']],
                                    i18n_attributes='alt; title msg-title')))
    add('attributes-interp', doc(el('img', static=[['alt', ['Logo of ', I('site')]], ['src', 'a.png']],
                                    i18n_attributes='alt')), [['site', 'int', 0]])
    add('attributes-dynamic', doc(el('img', static=[['alt', 'A']], attributes=[['alt', py('tv')]], i18n_attributes='alt')),
        [['tv', 'cls_t', 0]])
    add('implicit-attributes', doc(el('img', static=[['alt', 'Logo'], ['title', ['By ', I('site')]], ['src', 'a.png'],
                                                     ['longdesc', ['x', I('site + 1')]]])),
        [['site', 'int', 0]], options={'implicit_i18n_attributes': ['alt', 'title', 'longdesc']})
    add('implicit-and-explicit', doc(el('img', static=[['alt', ['Logo of ', I('site')]], ['title', 'T']],
                                        i18n_attributes='alt; title')),
        [['site', 'int', 0]], options={'implicit_i18n_attributes': ['alt', 'title']})
    add('translate-inside-repeat', doc(el('li', el('b', I('x'), i18n_name='n'), ' item', indent=2, repeat=['x', py('seq')],
                                          i18n_translate='')), [['seq', 'lenN', 0]])
    return out


def plan(tier, seed):
    quick = tier == 'quick'
    jobs = []
    for label, prog, vars_, cfg in programs(tier):
        j = {'prog': prog, 'vars': vars_, 'label': label, 'i18n': True}
        j.update(cfg)
        jobs.append(j)
    by = {j['label']: j for j in jobs}
    fam = dict(name='i18n_contract', module=HG, fn='H', jobs=jobs, timeout=300 if quick else 900, batch=2, vacuity=2,
               program_key='prog',
               mutants=[{'name': 'i18n_backup_by_value', 'cfg': by['same-value-nesting']},
                        {'name': 'msgid_not_normalised', 'cfg': by['implicit-id']}])
    return dict(
        level='translation_validation',
        functions=['chameleon.compiler:Compiler.visit_Translate', 'chameleon.compiler:Compiler.visit_Name',
                   'chameleon.compiler:Compiler.visit_Domain', 'chameleon.compiler:Compiler.visit_TxContext',
                   'chameleon.compiler:Compiler.visit_Target', 'chameleon.compiler:ExpressionTransform.visit_Translate',
                   'chameleon.compiler:emit_translate', 'chameleon.compiler:Interpolator.__call__',
                   'chameleon.zpt.program:MacroProgram._create_attributes_nodes', 'chameleon.i18n:parse_attributes'],
        bounds=('%d templates: translate with implicit/explicit id, empty content, 1-2 named children (under '
                'condition / omit-tag), nested translate, domain/context/target on ancestors incl. same-value and a-b-a '
                'nestings and target expressions, dynamic tal:content with i18n:translate, i18n:attributes on static / '
                'interpolated / dynamic attributes with and without ids, implicit_i18n_attributes alone and together with '
                'i18n:attributes, translate inside repeat; the translation function is a recording function whose return '
                'value exposes msgid, mapping, default, domain, context and target language, so output equality checks '
                'every argument; bindings decided by the solver. Outside: macros/slot fillers (C09 is metamorphic and '
                'has no translation), implicit_i18n_translate, i18n:name under repeat, i18n:ignore/comment/data.'
                % len(jobs)),
        assumptions=['reference i18n semantics in vlib/refsem.py from docs/reference.rst (i18n section) and the property '
                     'statement'],
        families=[fam],
    )
