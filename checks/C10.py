"""C10 -- i18n: message ids, mappings and translation context (DESIGN.md 4, C10)."""
from vlib.tprog import py

HG = 'checks.hG'


def I(src):   # noqa: E743
    return {'interp': py(src)}


def el(tag, *children, **kw):
    d = {'tag': tag, 'children': list(children)}
    d.update(kw)
    return d


def doc(*children, **kw):
    return el('div', *children, close_indent=0, **kw)


def programs(tier):
    out = []
    add = lambda label, prog, vars_=(), **cfg: out.append((label, prog, list(vars_), cfg))   # noqa: E731
    add('implicit-id', doc(el('p', '  Hello \n  world ', i18n_translate='')))
    add('explicit-id', doc(el('p', 'Hello world', i18n_translate='msg-hello')))
    add('empty-content', doc(el('p', '   ', i18n_translate=''), el('q', i18n_translate='')))
    add('names', doc(el('p', 'Hi ', el('b', I('v'), ' <', i18n_name='who'), ' and ', el('i', 'you', i18n_name='other'), '!',
                        i18n_translate='')), [['v', 'int', 0]])
    add('names-explicit-id', doc(el('p', 'Hi ', el('b', I('v'), i18n_name='who'), '!', i18n_translate='greet')),
        [['v', 'int', 0]])
    add('name-under-condition', doc(el('p', 'A ', el('b', 'shown', i18n_name='n1', condition=py('cv')), ' B ',
                                       el('i', 'omitted-tag', i18n_name='n2', omit=py('ov')), ' C', i18n_translate='')),
        [['cv', 'bool', 0], ['ov', 'bool', 1]])
    add('nested-translate', doc(el('p', 'Outer ', el('b', 'inner text', i18n_name='in', i18n_translate=''), ' end',
                                   i18n_translate='')))
    add('domain-context-target', doc(el('a', 'one', i18n_translate=''),
                                     el('x', el('a', 'two', i18n_translate=''),
                                        el('y', el('a', 'three', i18n_translate=''), i18n_context='ctx', i18n_target="'fr'"),
                                        el('a', 'four', i18n_translate=''), i18n_domain='shop'),
                                     el('a', 'five', i18n_translate='')), target_language='de')
    add('same-value-nesting', doc(el('x', el('y', el('a', 'in', i18n_translate=''), i18n_domain='shop', i18n_context='c',
                                             i18n_target="'fr'"),
                                     el('a', 'mid', i18n_translate=''), i18n_domain='shop', i18n_context='c', i18n_target="'fr'"),
                                  el('a', 'after', i18n_translate='')), target_language='de')
    add('aba-nesting', doc(el('x', el('y', el('z', el('a', 'in', i18n_translate=''), i18n_domain='a'),
                                      el('a', 'b-level', i18n_translate=''), i18n_domain='b'),
                              el('a', 'a-level', i18n_translate=''), i18n_domain='a'),
                           el('a', 'top', i18n_translate='')))
    add('target-applies-to-attributes', doc(el('x', el('img', static=[['alt', 'Logo'], ['src', 'a.png']], i18n_attributes='alt'),
                                               el('a', 'in', i18n_translate=''),
                                               el('y', el('img', static=[['title', ['T', I('site')]]], i18n_attributes='title'),
                                                  i18n_target='lang'),
                                               i18n_target="'fr'", i18n_domain='shop'),
                                            el('img', static=[['alt', 'Out']], i18n_attributes='alt')),
        [['site', 'int', 0], ['lang', 'int', 1]], target_language='de')
    add('with-encoding-option', doc(el('x', el('a', 'two', i18n_translate=''), el('img', static=[['alt', 'Logo']], i18n_attributes='alt'),
                                       el('p', 'three ', el('b', 'n', i18n_name='nm', condition=py('cv')), i18n_translate=''),
                                       i18n_domain='shop', i18n_context='ctx', i18n_target="'fr'")),
        [['cv', 'bool', 0]], target_language='de', options={'encoding': 'utf-8'})
    add('target-expression', doc(el('x', el('a', 'in', i18n_translate=''), i18n_target='lang'),
                                 el('x', el('a', 'dflt', i18n_translate=''), i18n_target='default')),
        [['lang', 'int', 0]], target_language='de')
    add('dynamic-content', doc(el('p', 'x', content=['text', py('tv')], i18n_translate='')), [['tv', 'cls_t', 0]], no_default=True)
    add('attributes-static', doc(el('img', static=[['alt', 'Logo'], ['title', 'T <'], ['src', 'a.png']],
                                    i18n_attributes='alt; title msg-title')))
    add('attributes-interp', doc(el('img', static=[['alt', ['Logo of ', I('site')]], ['src', 'a.png']],
                                    i18n_attributes='alt')), [['site', 'int', 0]])
    add('attributes-dynamic', doc(el('img', static=[['alt', 'A']], attributes=[['alt', py('tv')]], i18n_attributes='alt')),
        [['tv', 'cls_t', 0]])
    add('implicit-attributes', doc(el('img', static=[['alt', 'Logo'], ['title', ['By ', I('site')]], ['src', 'a.png'],
                                                     ['longdesc', ['x', I('site + 1')]]])),
        [['site', 'int', 0]], options={'implicit_i18n_attributes': ['alt', 'title', 'longdesc']})
    add('implicit-attributes-with-entities', doc(el('img', static=[['alt', 'Tom &amp; Jerry'], ['title', 'a &lt; b &#169;'], ['src', 'a.png']]),
                                                 el('img', static=[['alt', 'Tom &amp; Jerry']], i18n_attributes='alt')),
        [], options={'implicit_i18n_attributes': ['alt', 'title']})
    # the fallback of tal:on-error is translated with the settings of the element that carries it, also when the
    # failure happened under a descendant that had changed them
    add('on-error-fallback-translated', doc(el('div', el('p', el('span', el('b', 'Label', i18n_translate=''), {'interp': py('L(0)')},
                                                                  i18n_domain='inner', i18n_context='widget', i18n_target="'xx'"),
                                                       onerror=['text', py("'Something failed'")], i18n_translate=''),
                                               el('em', 'After', i18n_translate=''), i18n_domain='outer', i18n_context='page')),
        [[0, 'out3', 0]])
    # attributes named in i18n:attributes that the element does not have: appended in the order of the statement
    add('translation-only-attributes', doc(el('img', static=[['src', 'a.png']], attributes=[['width', py('w')]],
                                              i18n_attributes='title; alt; longdesc; width; summary')), [['w', 'int', 0]])
    # implicit translation (interpolated attribute text; a message object in a CDATA section) under an enclosing
    # i18n:target / i18n:domain: the settings of the enclosing element apply
    add('implicit-attribute-interpolated-under-target', doc(el('div', el('img', static=[['title', ['By ', I('site')]], ['alt', 'Logo']]),
                                                               i18n_target="'de'", i18n_domain='dd', i18n_context='cc')),
        [['site', 'int', 0]], options={'implicit_i18n_attributes': ['alt', 'title']})
    add('message-object-under-target', doc(el('div', {'cdata': [' ', I('m'), ' ']}, el('p', I('m')), el('q', 'x', content=['text', py('m')]),
                                              el('r', 'x', static=[['title', ['t ', I('m')]]]),
                                              i18n_target="'de'", i18n_domain='dd', i18n_context='cc')), [['m', 'msg', 0]])
    # a computed value of None removes the attribute also when i18n:attributes names it (with or without an id);
    # an empty attribute text is not offered for translation
    add('attribute-none-and-empty', doc(el('p', 'x', static=[['title', 't'], ['lang', 'l']], attributes=[['title', py('v')], ['lang', py('v')]],
                                           i18n_attributes='title the-id; lang'),
                                        el('q', 'y', static=[['title', ''], ['alt', '']], i18n_attributes='title; alt alt-id')),
        [['v', 'maybe3', 0]])
    # names of i18n:name blocks that differ only in characters which cannot be part of an identifier
    add('names-differing-in-punctuation', doc(el('p', 'A ', el('b', 'x', I('v'), i18n_name='a-b'), ' and ', el('i', 'y', i18n_name='a_b'),
                                                 ' or ', el('u', 'z', i18n_name='a.b'), i18n_translate='')), [['v', 'int', 0]])
    add('implicit-and-explicit', doc(el('img', static=[['alt', ['Logo of ', I('site')]], ['title', 'T']],
                                        i18n_attributes='alt; title')),
        [['site', 'int', 0]], options={'implicit_i18n_attributes': ['alt', 'title']})
    add('translate-inside-repeat', doc(el('li', el('b', I('x'), i18n_name='n'), ' item', indent=2, repeat=['x', py('seq')],
                                          i18n_translate='')), [['seq', 'lenN', 0]])
    return out


def generated(count, seed):
    """i18n programs from a small grammar (deterministic in ``seed``): nesting of domain/context/target
    wrappers (also the same value twice, also on the translated element itself), translated elements with
    implicit or explicit ids, 0-2 named children (plain, under a condition, with omitted tag, themselves
    translated), translated attributes (static / interpolated / with ids), all inside optional repeat."""
    import random
    rnd = random.Random(7000 + seed)
    out = []
    for n in range(count):
        vars_ = [['v', 'int', 0], ['cv', 'bool', 0], ['ov', 'bool', 1], ['seq', 'lenN', 1]]

        def named(k):
            kind = rnd.choice(['plain', 'cond', 'omit', 'translated', 'interp'])
            name = 'n%d' % k
            if kind == 'plain':
                return el('b', 'bold', i18n_name=name)
            if kind == 'cond':
                return el('b', 'maybe', i18n_name=name, condition=py('cv'))
            if kind == 'omit':
                return el('i', 'bare', i18n_name=name, omit=py('ov'))
            if kind == 'translated':
                return el('em', 'inner  text', i18n_name=name, i18n_translate=rnd.choice(['', 'inner-id']))
            return el('b', I('v'), ' <', i18n_name=name)

        def translated(depth):
            kids = [rnd.choice(['Hello ', '  Spaced \n out ', 'A'])]
            for k in range(rnd.choice([0, 0, 1, 2])):
                kids.append(named(k))
                kids.append(rnd.choice([' and ', '!', ' ']))
            kw = {'i18n_translate': rnd.choice(['', '', 'msg-%d' % depth])}
            if rnd.random() < 0.3:
                kw['static'] = [['title', rnd.choice(['Tip', ['By ', I('v')]])], ['id', 'k']]
                kw['i18n_attributes'] = rnd.choice(['title', 'title tip-id'])
            if rnd.random() < 0.2:
                kw['i18n_domain'] = 'own'
            return el('p', *kids, **kw)

        def wrapper(depth):
            kw = {}
            for key, vals in (('i18n_domain', ['shop', 'shop', 'blog']), ('i18n_context', ['c1', 'c1', 'c2']),
                              ('i18n_target', ["'fr'", "'fr'", "'it'", 'default'])):
                if rnd.random() < 0.5:
                    kw[key] = rnd.choice(vals)
            kids = [translated(depth)]
            if depth < 2 and rnd.random() < 0.6:
                kids.append(wrapper(depth + 1))
            kids.append(translated(depth + 10))
            return el('x', *kids, **kw)
        body = wrapper(0)
        if rnd.random() < 0.25:
            body = el('li', body, indent=2, repeat=['x', py('seq')])
        out.append(('gen-%d-%d' % (seed, n), doc(body, translated(99)), vars_, {'target_language': rnd.choice(['de', None])}))
    return out


def macro_pairs():
    """(template with METAL, hand-written METAL-free equivalent): a macro body starts from its caller's
    settings, a slot filler keeps those of the place where it was written"""
    T = lambda text, **kw: el('a', text, i18n_translate='', **kw)    # noqa: E731
    hide = lambda *m: el('hide', *m, condition=py('False'))          # noqa: E731
    out = []
    macro = el('p', T('in-macro'), el('x', el('b', T('slot-default'), define_slot='s'), T('in-macro-2'),
                                      i18n_domain='md', i18n_target="'fr'", i18n_context='mc'), define_macro='m')
    body = lambda slot: el('p', T('in-macro'), el('x', slot, T('in-macro-2'), i18n_domain='md', i18n_target="'fr'",    # noqa: E731
                                                  i18n_context='mc'))
    caller_kw = dict(i18n_domain='cd', i18n_target="'it'", i18n_context='cc')
    # 1 filler translating content: keeps the caller's domain/context/target inside the macro's other settings
    a = el('div', hide(macro), el('y', {'tag': 'u', 'children': [el('em', 'filler', fill_slot='s', i18n_translate='')],
                                        'use_macro': "macros['m']"}, **caller_kw), T('after'))
    b = el('div', hide(body(el('b', T('slot-default')))),
           el('y', body(el('em', 'filler', i18n_translate='', **caller_kw)), **caller_kw), T('after'))
    out.append(('filler-keeps-caller-settings', a, b, [], {'target_language': 'de'}))
    # 2 slot not filled: the default content translates with the macro's settings; body starts from the caller's
    a = el('div', hide(macro), el('y', {'tag': 'u', 'children': [], 'use_macro': "macros['m']"}, **caller_kw), T('after'))
    b = el('div', hide(body(el('b', T('slot-default')))), el('y', body(el('b', T('slot-default'))), **caller_kw), T('after'))
    out.append(('default-slot-macro-settings', a, b, [], {'target_language': 'de'}))
    # 3 no settings at the call site: the render-time target language reaches the macro body
    a = el('div', hide(macro), {'tag': 'u', 'children': [], 'use_macro': "macros['m']"}, T('after'))
    b = el('div', hide(body(el('b', T('slot-default')))), body(el('b', T('slot-default'))), T('after'))
    out.append(('render-target-language', a, b, [], {'target_language': 'de'}))
    # 3b a whole template used as a macro (include) inside i18n settings: its body starts from the caller's
    lib = el('article', T('lib-text'), el('img', static=[['alt', 'L']], i18n_attributes='alt'))
    a = el('div', el('y', {'tag': 'u', 'children': [], 'use_macro': 'lib'}, **caller_kw), T('after'))
    b = el('div', el('y', el('article', T('lib-text'), el('img', static=[['alt', 'L']], i18n_attributes='alt')), **caller_kw), T('after'))
    out.append(('whole-template-under-settings', a, b, [], {'target_language': 'de', 'lib': lib}))
    # 3c a slot inside an i18n:name block of a translated macro body: the filler's markup belongs to the mapping
    mname = el('p', 'Hello ', el('b', el('i', 'd', define_slot='s'), i18n_name='n'), '!', define_macro='m', i18n_translate='')
    a = el('div', hide(mname), '[', {'tag': 'u', 'children': [el('i', 'F', fill_slot='s')], 'use_macro': "macros['m']"}, '][',
           {'tag': 'u', 'children': [], 'use_macro': "macros['m']"}, ']')
    bname = lambda inner: el('p', 'Hello ', el('b', inner, i18n_name='n'), '!', i18n_translate='')      # noqa: E731
    b = el('div', hide(bname(el('i', 'd'))), '[', bname(el('i', 'F')), '][', bname(el('i', 'd')), ']')
    out.append(('slot-inside-name-block', a, b, [], {}))
    # 3d a value that is not a string, inserted by a filler that has translation settings of its own
    a = el('div', hide(macro4 if False else el('p', 'M ', el('i', 'd', define_slot='s'), define_macro='m', i18n_domain='md')),
           {'tag': 'u', 'children': [el('i', I('msg'), ' ', T('t'), ' ', el('y', content=['text', py('msg')]), fill_slot='s',
                                        i18n_domain='fd', i18n_context='fc')], 'use_macro': "macros['m']"}, i18n_domain='outer')
    b = el('div', hide(el('p', 'M ', el('i', 'd'), i18n_domain='md')),
           el('p', 'M ', el('i', I('msg'), ' ', T('t'), ' ', el('y', content=['text', py('msg')]), i18n_domain='fd', i18n_context='fc'),
              i18n_domain='md'), i18n_domain='outer')
    out.append(('message-object-in-filler', a, b, [['msg', 'msgobj', 0]], {}))
    # 4 filler with i18n:attributes and a computed target at the call site (macro without a context of its own)
    macro4 = el('p', T('in-macro'), el('x', el('b', T('slot-default'), define_slot='s'), T('in-macro-2'),
                                       i18n_domain='md', i18n_target="'fr'"), define_macro='m')
    body4 = lambda slot: el('p', T('in-macro'), el('x', slot, T('in-macro-2'), i18n_domain='md', i18n_target="'fr'"))   # noqa: E731
    filler = el('img', static=[['alt', 'Logo'], ['src', 'a.png']], fill_slot='s', i18n_attributes='alt')
    a = el('div', hide(macro4), el('y', {'tag': 'u', 'children': [filler], 'use_macro': "macros['m']"},
                                   i18n_domain='cd', i18n_target='lang'), T('after'))
    b = el('div', hide(body4(el('b', T('slot-default')))),
           el('y', body4(el('w', el('img', static=[['alt', 'Logo'], ['src', 'a.png']], i18n_attributes='alt'), omit='',
                            i18n_domain='cd', i18n_target='lang')), i18n_domain='cd', i18n_target='lang'), T('after'))
    out.append(('filler-attributes-computed-target', a, b, [['lang', 'int', 0]], {'target_language': 'de'}))
    return out


def plan(tier, seed):
    quick = tier == 'quick'
    jobs = []
    for label, prog, vars_, cfg in programs(tier) + generated(60 if quick else 600, seed):
        j = {'prog': prog, 'vars': vars_, 'label': label, 'i18n': True}
        j.update(cfg)
        jobs.append(j)
    by = {j['label']: j for j in jobs}
    fam = dict(name='i18n_contract', module=HG, fn='H', jobs=jobs, timeout=300 if quick else 900, batch=2, vacuity=2,
               program_key='prog',
               mutants=[{'name': 'attribute_target_from_context', 'cfg': by['target-applies-to-attributes']},
                        {'name': 'i18n_backup_by_value', 'cfg': by['same-value-nesting']},
                        {'name': 'msgid_not_normalised', 'cfg': by['implicit-id']}])
    mj = []
    for label, a, b, vars_, cfg in macro_pairs():
        j = {'label': 'macro:' + label, 'lib': None, 'caller': a, 'inlined': b, 'vars': vars_, 'i18n': True}
        j.update(cfg)
        mj.append(j)
    famM = dict(name='i18n_across_macros', module='checks.hC09', fn='H', jobs=mj, timeout=300, vacuity=1,
                program_key='label', mutants=[{'name': 'filler_uses_macro_target', 'cfg': mj[0]}])
    famK = dict(name='translation_function_of_the_call', module='checks.hC14', fn='determinism', jobs=[{'template': 'render-keywords'}],
                timeout=600, vacuity=1, mutants=[])
    return dict(
        level='translation_validation',
        functions=['chameleon.compiler:Compiler.visit_Translate', 'chameleon.compiler:Compiler.visit_Name',
                   'chameleon.compiler:Compiler.visit_Domain', 'chameleon.compiler:Compiler.visit_TxContext',
                   'chameleon.compiler:Compiler.visit_Target', 'chameleon.compiler:ExpressionTransform.visit_Translate',
                   'chameleon.compiler:emit_translate', 'chameleon.compiler:Interpolator.__call__',
                   'chameleon.zpt.program:MacroProgram._create_attributes_nodes', 'chameleon.i18n:parse_attributes'],
        bounds=('%d templates: translate with implicit/explicit id, empty content, 1-2 named children (under '
                'condition / omit-tag), nested translate, domain/context/target on ancestors incl. same-value and a-b-a '
                'nestings and target expressions (also for attribute translations), dynamic tal:content with i18n:translate, i18n:attributes on static / '
                'interpolated / dynamic attributes with and without ids, implicit_i18n_attributes alone and together with '
                'i18n:attributes, translate inside repeat; the translation function is a recording function whose return '
                'value exposes msgid, mapping, default, domain, context and target language, so output equality checks '
                'every argument; bindings decided by the solver; 4 macro programs compared with hand-written METAL-free '
                'equivalents (a whole template used as macro under i18n settings, a slot filler translating content / attributes keeps the settings of the place where it was '
                'written, the default slot content uses the macro\'s, the macro body starts from the caller\'s resp. the '
                'render-time target language); a template with the encoding option rendered repeatedly with different translate / target_language keywords uses those of each call. Outside: implicit_i18n_translate, i18n:name under repeat, i18n:ignore/comment/data.'
                % len(jobs)),
        assumptions=['reference i18n semantics in vlib/refsem.py from docs/reference.rst (i18n section) and the property '
                     'statement'],
        families=[fam, famM, famK],
    )
