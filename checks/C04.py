"""C04 -- TALES semantics; every reached expression evaluated exactly once, in order (DESIGN.md 4, C04)."""
import random

from vlib.tprog import py

H = 'checks.hG'


def L(k):
    return py('L(%d)' % k)


def shapes(tier):
    """(label, Expr, leaves used)"""
    out = [
        ('leaf', L(0), [0]),
        ('pipe2', {'pipe': [L(0), L(1)]}, [0, 1]),
        ('pipe3', {'pipe': [L(0), L(1), L(2)]}, [0, 1, 2]),
        ('not', {'not': L(0)}, [0]),
        ('exists', {'exists': L(0)}, [0]),
        ('not_exists_pipe', {'not': {'exists': {'pipe': [L(0), L(1)]}}}, [0, 1]),
        ('exists_pipe', {'exists': {'pipe': [L(0), L(1)]}}, [0, 1]),
        ('string', {'string': ['a', L(0), 'b']}, [0]),
        ('string_pipe', {'string': ['a', {'pipe': [L(0), L(1)]}, 'b']}, [0, 1]),
        ('string2', {'string': [L(0), '-', L(1)]}, [0, 1]),
        ('pipe_then_string', {'pipe': [L(0), {'string': ['x', L(1)]}]}, [0, 1]),
        ('pipe_then_not', {'pipe': [L(0), {'not': L(1)}]}, [0, 1]),
        ('pipe_then_exists', {'pipe': [L(0), {'exists': L(1)}]}, [0, 1]),
        ('python_prefix', {'python': {'pipe': [L(0), L(1)]}}, [0, 1]),
        ('structure', {'structure': L(0)}, [0]),
        ('structure_pipe', {'structure': {'pipe': [L(0), L(1)]}}, [0, 1]),
        ('not_not', {'not': {'not': L(0)}}, [0]),
    ]
    if tier != 'quick':
        out.append(('pipe4', {'pipe': [L(0), L(1), L(2), L(3)]}, [0, 1, 2, 3]))
        out.append(('pipe3_mid_prefix', {'pipe': [L(0), L(1), {'not': {'pipe': [L(2), L(3)]}}]},
                    [0, 1, 2, 3]))
    return out


SITES = ('content', 'replace', 'condition', 'define', 'repeat', 'attributes', 'omit', 'text',
         'attrtext', 'switch', 'case')


def site_element(site, e):
    p = {'tag': 'p', 'indent': 2, 'children': ['x']}
    if site == 'content':
        p['content'] = ['text', e]
    elif site == 'replace':
        p['replace'] = ['text', e]
    elif site == 'condition':
        p['condition'] = e
    elif site == 'define':
        p['define'] = [['local', 'v', e]]
        p['children'] = [{'interp': py('v')}]
    elif site == 'repeat':
        p['repeat'] = ['x', e]
        p['children'] = [{'interp': py('x')}]
    elif site == 'attributes':
        p['attributes'] = [['title', e]]
    elif site == 'omit':
        p['omit'] = e
    elif site == 'text':
        p['children'] = ['a', {'interp': e}, 'b']
    elif site == 'attrtext':
        p['static'] = [['t', ['a', {'interp': e}, 'b']]]
    elif site == 'switch':
        p['switch'] = e
        p['children'] = [{'tag': 'b', 'case': py('1'), 'children': ['one']},
                         {'tag': 'i', 'case': py('default'), 'children': ['dflt']}]
    elif site == 'case':
        p['switch'] = py('1')
        p['children'] = [{'tag': 'b', 'case': e, 'children': ['one']},
                         {'tag': 'i', 'case': py('default'), 'children': ['dflt']}]
    return {'tag': 'div', 'children': ['A', p, 'B'], 'close_indent': 0}


def ok_at(site, label):
    # 'structure' is meaningful where text is inserted; string: inside ${} needs no own test here
    if label.startswith('structure') and site not in ('content', 'replace', 'text', 'define'):
        return False
    if site == 'repeat' and (label.startswith(('string', 'not', 'exists', 'structure'))
                             or 'then_' in label):
        return False            # value must be iterable
    if site in ('text', 'attrtext') and label.startswith('string'):
        return False
    return True


def plan(tier, seed):
    rnd = random.Random(seed)
    quick = tier == 'quick'
    jobs = []
    for label, e, leaves in shapes(tier):
        sites = [s for s in SITES if ok_at(s, label)]
        if quick and len(leaves) >= 3:
            sites = ['content', 'condition', 'text']
        if len(leaves) >= 4:
            sites = ['content', 'define']
        for site in sites:
            vars_ = [[k, 'out', k] for k in leaves]
            if site in ('condition', 'omit') or label.startswith(('not', 'pipe_then_not')):
                vars_ += [[k, 'lbool', k] for k in leaves]
            if site == 'repeat':
                vars_ += [[k, 'llist', None] for k in leaves]
            jobs.append({'prog': site_element(site, e), 'vars': vars_, 'label': '%s@%s' % (label, site)})
    # two expression sites on one element and in sequence: exactly-once and document order
    two = {'tag': 'div', 'close_indent': 0, 'children': [
        'A', {'tag': 'p', 'indent': 2, 'define': [['local', 'v', {'pipe': [L(0), L(1)]}]],
              'condition': py('L(2) or True'), 'content': ['text', {'pipe': [py('v'), L(3)]}],
              'children': ['x']},
        {'tag': 'q', 'indent': 2, 'children': [{'interp': {'pipe': [L(4), L(5)]}}]}, 'B']}
    jobs.append({'prog': two, 'vars': [[k, 'out', k] for k in (0, 1, 2)] + [[4, 'out', 4]]
                 if quick else [[k, 'out', k] for k in range(6)], 'label': 'two-sites'})
    # after a case has matched, the expressions of the later cases are not evaluated (and cannot fail)
    mc = {'tag': 'div', 'close_indent': 0, 'children': ['A', {'tag': 'p', 'switch': py('sv'), 'children': [
        {'tag': 'a', 'case': L(0), 'children': ['zero']}, {'tag': 'b', 'case': L(1), 'children': ['one']},
        {'tag': 'c', 'case': py('default'), 'children': ['dflt']}, {'tag': 'd', 'case': L(2), 'children': ['late']}]}, 'B']}
    jobs.append({'prog': mc, 'vars': [['sv', 'int', 3], [0, 'out', 0], [1, 'out', 1], [2, 'out', 2], [0, 'lconst', 0], [1, 'lconst', 1], [2, 'lconst', 2]],
                 'label': 'multi-case'})
    # an element that is replaced never evaluates its omit-tag expression; with `default` it does, once
    orp = {'tag': 'div', 'close_indent': 0, 'children': [
        'A', {'tag': 'p', 'omit': L(0), 'replace': ['text', {'pipe': [L(1), py('default')]}], 'children': ['x']}, 'B']}
    jobs.append({'prog': orp, 'vars': [[0, 'out', 0], [1, 'out', 1], [0, 'lbool', 0]], 'label': 'omit-and-replace'})
    # names the template class offers as builtins (extra_builtins option): a render argument of that name wins
    eb = {'tag': 'div', 'close_indent': 0, 'children': [
        'A', {'tag': 'p', 'children': [{'interp': py('eb1')}, '|', {'interp': py('eb2 + 1')}, '|',
                                       {'interp': {'pipe': [py('eb3'), py("'unbound'")]}}]},
        {'tag': 'q', 'define': [['local', 'eb2', py('50')]], 'children': [{'interp': py('eb2')}]}, {'interp': py('eb2')}, 'B']}
    jobs.append({'prog': eb, 'vars': [['eb1', 'maybe', 0], ['eb2', 'maybe', 1], ['eb3', 'maybe', 2]], 'label': 'extra-builtins',
                 'extra_builtins': {'eb1': 7, 'eb2': 8}})
    # names: template variable before builtin; attribute access falls back to item lookup
    names = {'tag': 'div', 'close_indent': 0, 'children': [
        'A', {'tag': 'p', 'children': [{'interp': py("rec('n', len) if len == 5 else rec('b', len('ab'))")}]},
        {'tag': 'q', 'children': [{'interp': py('str(3) + show(abs)')}]}, 'B']}
    jobs.append({'prog': names, 'vars': [['len', 'maybe', 0], ['abs', 'maybe', 1], ['str', 'maybe', 2]],
                 'label': 'names'})
    attr = {'tag': 'div', 'close_indent': 0, 'children': [
        'A', {'tag': 'p', 'children': [{'interp': {'pipe': [{'attr': [py('o'), 'k']}, py("'fallback'")]}}]},
        'B']}
    jobs.append({'prog': attr, 'vars': [['o', 'obj', 0]], 'label': 'attr-fallback-pipe'})
    attr2 = {'tag': 'div', 'close_indent': 0, 'children': [
        'A', {'tag': 'p', 'content': ['text', {'attr': [py('o'), 'k']}], 'children': ['x']}, 'B']}
    jobs.append({'prog': attr2, 'vars': [['o', 'obj', 0]], 'label': 'attr-fallback'})
    # an attribute that exists wins over an item of the same name (dict methods vs. keys called like them)
    attr3 = {'tag': 'div', 'close_indent': 0, 'children': [
        'A', {'tag': 'p', 'children': [{'interp': {'pipe': [py("rec('first', show(o.keys))"), py("rec('second', 'fallback')")]}}]},
        {'tag': 'q', 'children': [{'interp': {'pipe': [py("sorted(o.keys())"), py("'not-callable'")]}}]}, 'B']}
    jobs.append({'prog': attr3, 'vars': [['o', 'obj2', 0]], 'label': 'attr-before-item'})

    # template variables named like the exception classes that `|` and exists: catch do not change what is caught
    exn = {'tag': 'div', 'close_indent': 0, 'children': [
        'A', {'tag': 'p', 'children': [{'interp': {'pipe': [L(0), py("'fallback'")]}}]},
        {'tag': 'q', 'children': [{'interp': {'pipe': [py('NameError + TypeError'), py("'unbound'")]}}]}, 'B']}
    jobs.append({'prog': exn, 'vars': [[0, 'out', 0], ['NameError', 'maybe', 1], ['TypeError', 'maybe', 2], ['LookupError', 'maybe', 3],
                                       ['AttributeError', 'maybe', 4], ['ValueError', 'maybe', 5]],
                 'label': 'exception-class-names-as-variables'})
    # python sub-grammar: lambdas (parameter names colliding with template variables), f-strings,
    # comprehensions, calls/attribute/item access
    def doc(*children):
        return {'tag': 'div', 'close_indent': 0, 'children': ['A'] + list(children) + ['B']}
    sub = [
        ('lambda-define', doc({'tag': 'p', 'define': [['local', 'f', py('lambda n: n + dv')]],
                               'children': [{'interp': py('f(2)')}, '|', {'interp': {'pipe': [py('n'), py("'unbound'")]}}]}),
         [['n', 'maybe', 0], ['dv', 'int', 1]]),
        ('lambda-inline', doc({'tag': 'p', 'children': [{'interp': py('(lambda n: n * 2)(k)')}, '|',
                                                       {'interp': {'pipe': [py('n'), py("'unbound'")]}},
                                                       '|', {'interp': py('(lambda len: len + 1)(k) + len([k])')}]}),
         [['n', 'maybe', 0], ['k', 'int', 1]]),
        ('lambda-builtin-param', doc({'tag': 'p', 'define': [['local', 'g', py('lambda max: max')]],
                                      'children': [{'interp': py('g(k)')}, '|', {'interp': py('max')}]}),
         [['max', 'int', 0], ['k', 'int', 1]]),
        ('lambda-nested', doc({'tag': 'p', 'children': [{'interp': py('(lambda a: (lambda b: a + b + k))(1)(2)')}, '|',
                                                       {'interp': py('(lambda a: [(lambda: a + q)() for q in (1, 2)])(k)')}, '|',
                                                       {'interp': {'pipe': [py('a'), py("'unbound'")]}}]}),
         [['a', 'maybe', 0], ['k', 'int', 1]]),
        ('lambda-default-from-outer', doc({'tag': 'p', 'children': [{'interp': py('(lambda a=k: a + 1)()')}, '|',
                                                                   {'interp': py('(lambda k=k: k + 1)()')}, '|',
                                                                   {'interp': py('(lambda k=k + 1, *r, **kw: k)()')}]}),
         [['k', 'int', 1]]),
        ('fstring', doc({'tag': 'p', 'children': [{'interp': py("f'{k}-{k + 1}' + '%d' % k")}]}),
         [['k', 'int', 1]]),
        ('comprehension', doc({'tag': 'p', 'children': [{'interp': py('[q + k for q in (1, 2)]')}, '|',
                                                       {'interp': py('sum(w * k for w in (1, 2))')}]}),
         [['k', 'int', 1]]),
        ('item-attr-call', doc({'tag': 'p', 'children': [{'interp': py("{'a': [k, 2]}['a'][0] + len(str(k)) + max(k, 1)")}]}),
         [['k', 'int', 1]]),
    ]
    for label, prog, vars_ in sub:
        jobs.append({'prog': prog, 'vars': vars_, 'label': 'py:' + label})

    mut_cfg = {'prog': site_element('content', {'pipe': [L(0), L(1)]}),
               'vars': [[0, 'out', 0], [1, 'out', 1]]}
    fam = dict(name='tales_semantics', module=H, fn='H', jobs=jobs, timeout=300 if quick else 900,
               batch=3, vacuity=2, program_key='prog',
               mutants=[{'name': 'pipe_catches_zerodiv', 'cfg': mut_cfg},
                        {'name': 'exists_misses_nameerror',
                         'cfg': {'prog': site_element('content', {'exists': L(0)}), 'vars': [[0, 'out', 0]]}}])
    return dict(
        level='translation_validation',
        functions=['chameleon.tales:TalesExpr.__call__', 'chameleon.tales:PythonExpr.translate',
                   'chameleon.tales:NotExpr.__call__', 'chameleon.tales:ExistsExpr.__call__',
                   'chameleon.tales:StringExpr.__call__', 'chameleon.tales:StructureExpr.__call__',
                   'chameleon.tales:ExpressionParser.__call__', 'chameleon.tales:transform_attribute',
                   'chameleon.utils:lookup_attr', 'chameleon.utils:Scope.get_name',
                   'chameleon.compiler:NameTransform.__call__', 'chameleon.compiler:Interpolator.__call__',
                   'chameleon.compiler:ExpressionEngine.get_compiler',
                   'chameleon.compiler:ExpressionTransform.__call__', 'chameleon.compiler:Compiler.visit_Cache'],
        bounds=('%d programs: %d expression shapes (pipes of length 1-%d, not:/exists:/string:/structure:/python: '
                'nestings of depth <= 2) x up to 11 site kinds; per leaf the solver ranges over {succeeds (symbolic '
                'truthiness), raises one of 10 exception classes}; name resolution with each of len/abs/str bound or '
                'not; attribute->item fallback over 8 object kinds, attribute-before-item over 5 kinds (dicts with keys named like their methods, a dict subclass, an object with both). Outside: import:/load:, deeper nestings, python '
                'sub-grammar (comprehensions, lambdas, f-strings: see seeded C04-a), expression text with markup '
                'characters.' % (len(jobs), len(shapes(tier)), 3 if quick else 4)),
        assumptions=[
            'programs enumerated, bindings (leaf outcomes) decided per program by CrossHair/z3 over the generated '
            'render function',
            'reference TALES semantics in vlib/refsem.py from docs/reference.rst (pipe: AttributeError, NameError, '
            'LookupError, TypeError, ValueError; exists: AttributeError, LookupError, TypeError, NameError)',
            'exception classes are compared by their first builtin/base class (render errors are re-typed '
            'subclasses; C12 checks the re-typing itself)',
        ],
        families=[fam],
    )
