"""C13 harness (kernel): the fallback element of tal:on-error has the start tag of the element it replaces
(static attributes only), written the way the element's own start tag is written under the current
trim_attribute_space setting."""
from chameleon import PageTemplate

CFG = {}
STATE = {}

# (template, the static start tag as written, is there a dynamic attribute)
TAGS = [
    '<a id="x"\n     class="c" tal:on-error="string:E"\n  >p${1 // v}q</a>',
    '<a\n  id="x" tal:on-error="string:E">p${1 // v}q</a>',
    '<a id="x"   class="c"  tal:on-error="string:E"  >p${1 // v}q</a>',
    '<a id="x"\n tal:on-error="string:E"\n tal:attributes="title t"\n>p${1 // v}q</a>',
    '<a tal:on-error="string:E"\n\n>p${1 // v}q</a>',
]


def _mutate(name):
    from chameleon.zpt import program as zp
    import inspect
    import textwrap
    if name == 'fallback_suffix_untrimmed':
        src_fn = zp.MacroProgram.visit_element
        code = textwrap.dedent(inspect.getsource(src_fn))
        i = code.index('# tal:on-error')
        j = code.index('ON_ERROR = partial(nodes.OnError', i)
        seg = code[i:j].replace("self._maybe_trim(start['suffix'])", "start['suffix']")
        new = code[:i] + seg + code[j:]
        assert new != code
        ns = dict(src_fn.__globals__)
        exec('from __future__ import annotations\n' + new, ns)
        zp.MacroProgram.visit_element = ns['visit_element']
    else:
        raise KeyError(name)


def prepare(cfg):
    if cfg.get('mutant'):
        _mutate(cfg['mutant'])
    STATE['tpl'] = {}
    for i, text in enumerate(TAGS):
        for trim in (False, True):
            STATE['tpl'][(i, trim)] = PageTemplate('<div>\n  ' + text + '</div>', trim_attribute_space=trim)


def pick(table, idx):
    for n in range(len(table)):
        if idx == n:
            return table[n]
    raise IndexError(idx)


def start_tag(out):
    i = out.index('<a')
    return out[i:out.index('>', i) + 1]


def fallback_tag(i: int, trim: bool) -> bool:
    """
    pre: 0 <= i < 5
    post: _
    """
    k = pick([0, 1, 2, 3, 4], i)
    t = STATE['tpl'][(k, True if trim else False)]
    good = t.render(v=1, t=None)
    bad = t.render(v=0, t=None)
    ok = '>p1q</a>' in good and '>E</a>' in bad and start_tag(good) == start_tag(bad)
    return (not ok) if CFG.get('negate') else ok
