"""C20 -- text-mode templates copy their source verbatim except for ${...} and $$ (DESIGN.md 4, C20)."""
H = 'checks.hC20'


def plan(tier, seed):
    quick = tier == 'quick'
    shapes = [[0, 1, 2], ['<', 0, 1, '>'], ['<?', 0, 1, '?>'], ['<!--', 0, '-->', 1], ['$', 0, 1], [0, '$$', 1, 2],
              ['<p tal:content="', 0, '">', 1, '</p>'], ['&', 0, 1, ';'], ['</', 0, '>', 1]]
    if not quick:
        shapes += [[0, 1, 2, 3], ['<', 0, 1, 2, '>'], ['<![CDATA[', 0, 1, ']]>'], ['a\n', 0, '\n', 1, '$$', 2]]
    # a long template (more than 8 kB over many lines) is still one token
    shapes.append(['0123456789abcde\n' * 600, 0, '${x +\n', 1, ' y}\n'])
    famV = dict(name='text_front_end_verbatim', module=H, fn='verbatim', jobs=[{'shape': s} for s in shapes],
                timeout=400 if quick else 1500, vacuity=1,
                mutants=[{'name': 'dollar_kept', 'cfg': {'shape': [0, '$$', 1, 2]}},
                         {'name': 'text_identified_as_markup', 'cfg': {'shape': ['<?', 0, 1, '?>']}}])
    rj = []
    for t in ('t1', 't2', 't3', 't4', 't5', 't6'):
        for kind in ('str', 'object'):
            rj.append({'template': t, 'kind': kind, 'k': 2 if quick else 3})
    rj.append({'template': 't1', 'kind': 'none', 'k': 1})
    rj.append({'template': 't1', 'kind': 'str', 'k': 2, 'shared_cache': True})
    rj.append({'template': 't3', 'kind': 'str', 'k': 2, 'shared_cache': True})
    rj.append({'template': 't3', 'kind': 'str', 'k': 1, 'shared_cache': 'file'})
    famR = dict(name='text_render_unescaped', module=H, fn='render', jobs=rj, timeout=400 if quick else 1500, vacuity=1,
                program_key='template', mutants=[{'name': 'text_mode_escapes', 'cfg': rj[0]},
                                                 {'name': 'digest_ignores_template_kind', 'cfg': rj[-2]}])
    famF = dict(name='text_file_bytes', module=H, fn='file_bytes', jobs=[{'file': True}], timeout=600, vacuity=1,
                mutants=[{'name': 'incremental_encoder_cached', 'cfg': {'file': True}}])
    return dict(
        level='model_checking',
        functions=['chameleon.tokenize:iter_text', 'chameleon.program:ElementProgram',
                   'chameleon.zpt.program:MacroProgram.visit_text', 'chameleon.zpt.template:PageTemplate.parse',
                   'chameleon.compiler:emit_func_convert', 'chameleon.compiler:Compiler.visit_Interpolation',
                   'chameleon.zpt.template:PageTextTemplateFile.render'],
        bounds=('text-mode front end on %d source shapes with up to %d symbolic code points (markup-looking skeletons '
                'included, one of 9.6 kB): one token equal to the source, emitted text = source with $$ -> $; %d renders of 5 text '
                'templates with ${v} at several places, v = %d symbolic code points (str / object with __str__ / None): '
                'output = literal parts + str(v), nothing escaped (two of them also compiled after a markup template of the same source through one on-disk module cache, one as a file served first by PageTemplateFile, then by PageTextTemplateFile). The ${...} delimiting itself is C06\'s kernel. Outside: '
                'CR/CRLF (normalised as documented for non-XML input), entity decoding inside ${} expressions (known '
                'finding). PageTextTemplateFile: every history of 3 renders on one instance with values from a 5-element pool '
                '(ASCII, Latin-1, markup, empty, CJK) under 6 output encodings (stateless and stateful codecs): each result is '
                'the encoded form of what the string template renders; the choice of history and encoding is the '
                'solver\'s, encoding itself is concrete (codecs are a C boundary).'
                % (len(shapes), 3 if quick else 4, len(rj), 2 if quick else 3)),
        assumptions=['front-end harness reuses the C03 stubs (no-op expression engine)'],
        families=[famV, famR, famF],
    )
