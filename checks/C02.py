"""C02 -- inserted values are escaped and cannot change document structure (DESIGN.md 4, C02)."""
H = 'checks.hC02'

ESCAPED_SITES = ['text', 'attr_dq', 'attr_sq', 'attr_unquoted_interp', 'tal_attr_unquoted_static', 'filler_text', 'filler_attr', 'tal_attr', 'tal_attr_sq_static', 'dict_attr', 'comment',
                 'content', 'replace', 'string_content', 'string_attr', 'i18n_name']
MSG_SITES = ['translated_msg', 'translated_msg_interp', 'content_translated', 'replace_translated']
OPTOUT_SITES = ['structure_kw', 'structure_expr', 'html_method', 'cdata']


def plan(tier, seed):
    quick = tier == 'quick'
    jobs = []
    for site in ESCAPED_SITES:
        for k in ((1, 2, 3) if quick else (1, 2, 3, 4)):
            jobs.append({'site': site, 'kind': 'str', 'k': k})
        for kind in ('substr', 'object', 'bytes', 'intsub', 'floatsub'):
            jobs.append({'site': site, 'kind': kind, 'k': 2 if quick else 3})
        jobs.append({'site': site, 'kind': 'int', 'k': 1})
    for site in MSG_SITES:
        jobs.append({'site': site, 'kind': 'str', 'k': 1})
        jobs.append({'site': site, 'kind': 'str', 'k': 2})
    for site in ('string_in_interp_text', 'string_in_interp_attr'):
        jobs.append({'site': site, 'kind': 'str', 'k': 1, 'label': 'string-in-interpolation'})
    for site in ('text', 'attr_dq', 'content'):
        jobs.append({'site': site, 'kind': 'str', 'k': 2, 'shared_cache': True})
    for site in OPTOUT_SITES:
        jobs.append({'site': site, 'kind': 'str', 'k': 1})
        jobs.append({'site': site, 'kind': 'str', 'k': 2})
    jobs.append({'site': 'five', 'kind': 'str', 'k': 1})
    jobs.append({'site': 'five', 'kind': 'str', 'k': 2})
    if not quick:
        jobs.append({'site': 'five', 'kind': 'str', 'k': 3})
        jobs.append({'site': 'text', 'kind': 'str', 'k': 5})
    fam = dict(name='escape_sites', module=H, fn='esc', jobs=jobs, timeout=400 if quick else 1500,
               vacuity=2, program_key='site',
               mutants=[{'name': 'no_gt_escape', 'cfg': {'site': 'text', 'kind': 'str', 'k': 1}},
                        {'name': 'no_quote_escape', 'cfg': {'site': 'attr_sq', 'kind': 'str', 'k': 1}},
                        {'name': 'gate_narrow', 'cfg': {'site': 'content', 'kind': 'str', 'k': 1}},
                        {'name': 'digest_ignores_template_kind', 'cfg': {'site': 'text', 'kind': 'str', 'k': 1, 'shared_cache': True}}])
    return dict(
        level='model_checking',
        functions=['chameleon.compiler:emit_func_convert_and_escape', 'chameleon.compiler:emit_func_convert',
                   'chameleon.compiler:emit_convert', 'chameleon.compiler:ExpressionEngine._convert_text',
                   'chameleon.utils:char2entity', 'chameleon.compiler:Compiler.visit_Content',
                   'chameleon.compiler:Compiler.visit_Attribute', 'chameleon.compiler:Compiler.visit_DictAttributes',
                   'chameleon.compiler:Compiler.visit_Interpolation', 'chameleon.compiler:Compiler.visit_Translate',
                   'chameleon.compiler:Compiler.visit_Name', 'chameleon.compiler:Interpolator.__call__'],
        bounds=('%d insertion sites (element text, double/single-quoted attribute, attributes written without quotes, text and attribute inside a slot filler, tal:attributes named and over a '
                'single-quoted static attribute, attribute dictionary, comment, tal:content, tal:replace, string: in '
                'content and attribute, i18n:name block, translated message objects, the 5-site combination) and the '
                'opt-outs (structure keyword/expression, __html__, CDATA); value kinds str / str subclass / object with '
                '__str__ / int and float subclasses with their own __str__ / bytes (decode hook returns the symbolic text) / int; dynamic content whose translation is the hostile text; the inserted text is k symbolic code '
                'points, every code point 0..0x10FFFF, k <= %d (str) resp. %d (other kinds). Outside: longer values, '
                'escaping of dictionary keys and of what a translation function returns for i18n:attributes, text-mode '
                'templates (C20). Three sites are also compiled after a text-mode template of the same source through one on-disk module cache.' % (len(ESCAPED_SITES) + len(MSG_SITES) + 1, 3 if quick else 4, 2 if quick else 3)),
        assumptions=['structural oracle (independent reader): skeleton of the harmless render; region contains no raw '
                     '<, >, site quote, no & except as start of an entity the escaper emits; un-escaping gives str(value)',
                     'bytes: the value is a concrete bytes object and render() gets __decode=lambda b: <symbolic text> '
                     '(the hook render() itself installs); codecs are a C boundary'],
        families=[fam],
    )
