"""C08 -- tal:repeat iterates any iterable and exposes correct repeat variables (DESIGN.md 4, C08)."""
from vlib.tprog import py

HG = 'checks.hG'
HK = 'checks.hC08'

PROBES = ['index', 'number', 'length', 'parity', 'letter', 'Letter', 'roman', 'Roman']
BOOLS = ['even', 'odd', 'start', 'end']


def I(src):   # noqa: E743
    return {'interp': py(src)}


def probes(name):
    out = []
    for p in PROBES:
        out += [I('repeat.%s.%s' % (name, p)), ':']
    for p in BOOLS:
        out += [I('bool(repeat.%s.%s)' % (name, p)), ':']
    out += [I("repeat['%s'].number" % name)]
    return out


def ul(*children, **kw):
    d = {'tag': 'ul', 'children': list(children), 'close_indent': kw.get('close', 0)}
    if 'indent' in kw:
        d['indent'] = kw['indent']
    return d


def programs(tier):
    out = []
    kinds = ['list', 'tuple', 'range', 'generator', 'iterator', 'dictkeys', 'dict', 'str', 'userlist', 'customseq',
             'mappingkeys', 'deque']
    for k in kinds:
        out.append(('kind:' + k, ul({'tag': 'li', 'indent': 2, 'repeat': ['x', py('seq')],
                                     'children': [I('x'), '|'] + probes('x')}),
                    [['seq', 'iter:' + k, 0]]))
    out.append(('implicit-translate-option', ul('  ', {'tag': 'li', 'indent': 4, 'repeat': ['x', py('seq')], 'children': [I('x')]},
                                                 {'tag': 'p', 'indent': 2, 'children': ['tail ', {'tag': 'b', 'indent': 6, 'repeat': ['y', py('seq')],
                                                                                                 'children': ['w']}]}),
                [['seq', 'iter:list', 0]], {'options': {'implicit_i18n_translate': True}}))
    out.append(('none', ul({'tag': 'li', 'indent': 2, 'repeat': ['x', py('seq')], 'children': [I('x')]}),
                [['seq', 'lenN', 0]]))
    out.append(('unpack', ul({'tag': 'li', 'indent': 2, 'repeat': [['a', 'b'], py('seq')],
                              'children': [I('a'), '-', I('b'), '|', I("repeat['a', 'b'].number")]}),
                [['seq', 'iter:pairs', 0]]))
    out.append(('nested-distinct', ul({'tag': 'li', 'indent': 2, 'close_indent': 2, 'repeat': ['x', py('s1')], 'children': [
        {'tag': 'b', 'indent': 4, 'repeat': ['y', py('s2')],
         'children': [I('x'), ',', I('y'), ',', I('repeat.x.number'), ',', I('repeat.y.number'), ',',
                      I('bool(repeat.x.end)'), I('bool(repeat.y.end)')]}]}),
        [['s1', 'iter:list', 0], ['s2', 'iter:generator', 1]]))
    out.append(('nested-same-name', ul({'tag': 'li', 'indent': 2, 'close_indent': 2, 'repeat': ['x', py('s1')], 'children': [
        {'tag': 'b', 'indent': 4, 'repeat': ['x', py('s2')], 'children': [I('x'), ',', I('repeat.x.number')]}]}),
        [['s1', 'iter:list', 0], ['s2', 'iter:tuple', 1]]))
    # after a nested loop over the same name is finished, repeat.x is the outer loop's again
    out.append(('nested-same-name-probe-after', ul({'tag': 'li', 'indent': 2, 'close_indent': 2, 'repeat': ['x', py('s1')], 'children': [
        I('repeat.x.number'), {'tag': 'b', 'indent': 4, 'repeat': ['x', py('s2')], 'children': [I('x')]},
        '[', I('x'), ':', I('repeat.x.number'), ':', I('bool(repeat.x.end)'), ':', I('repeat.x.length'), ']']}),
        [['s1', 'iter:list', 0], ['s2', 'iter:tuple', 1]]))
    # indentation written with tabs (and tabs mixed with blanks)
    out.append(('tab-indentation', {'tag': 'ul', 'close_indent': 0, 'children': [
        {'tag': 'li', 'indent': '\t', 'close_indent': '\t', 'repeat': ['x', py('s1')], 'children': [
            {'tag': 'b', 'indent': '\t \t', 'repeat': ['y', py('s2')], 'children': [I('x'), I('y')]}]}]},
        [['s1', 'iter:list', 0], ['s2', 'iter:list', 1]]))
    out.append(('after-sibling', ul({'tag': 'li', 'indent': 2, 'children': ['first']},
                                    {'tag': 'li', 'indent': 2, 'repeat': ['x', py('seq')], 'children': [I('x')]},
                                    {'tag': 'li', 'indent': 2, 'children': ['last']}),
                [['seq', 'iter:list', 0]]))
    out.append(('indent-0-and-6', {'tag': 'div', 'close_indent': 0, 'children': [
        {'tag': 'p', 'indent': 0, 'repeat': ['x', py('s1')], 'children': [I('x')]},
        {'tag': 'section', 'indent': 0, 'close_indent': 0, 'children': [
            {'tag': 'q', 'indent': 6, 'repeat': ['y', py('s2')], 'children': [I('y')]}]}]},
        [['s1', 'iter:list', 0], ['s2', 'iter:range', 1]]))
    out.append(('condition-in-body', ul({'tag': 'li', 'indent': 2, 'repeat': ['x', py('seq')], 'children': [
        {'tag': 'i', 'condition': py('repeat.x.odd'), 'children': ['odd']}, I('x')]}),
        [['seq', 'iter:list', 0]]))
    out.append(('define-and-repeat', ul({'tag': 'li', 'indent': 2, 'define': [['local', 'k', py('7')]],
                                         'repeat': ['x', py('seq')], 'attributes': [['n', py('repeat.x.number')]],
                                         'children': [I('x + k')]}),
                [['seq', 'iter:range', 0]]))
    if tier != 'quick':
        out.append(('nested3', ul({'tag': 'li', 'indent': 2, 'close_indent': 2, 'repeat': ['x', py('s1')], 'children': [
            {'tag': 'b', 'indent': 4, 'close_indent': 4, 'repeat': ['y', py('s2')], 'children': [
                {'tag': 'i', 'indent': 6, 'repeat': ['z', py('s3')],
                 'children': [I('x'), I('y'), I('z'), I('repeat.z.letter')]}]}]}),
            [['s1', 'iter:list', 0], ['s2', 'iter:generator', 1], ['s3', 'iter:str', 2]]))
        out.append(('nested3-same', ul({'tag': 'li', 'indent': 2, 'close_indent': 2, 'repeat': ['x', py('s1')], 'children': [
            {'tag': 'b', 'indent': 4, 'close_indent': 4, 'repeat': ['x', py('s2')], 'children': [
                {'tag': 'i', 'indent': 6, 'repeat': ['x', py('s3')], 'children': [I('x')]}]}]}),
            [['s1', 'iter:list', 0], ['s2', 'iter:list', 1], ['s3', 'iter:list', 2]]))
    return out


def plan(tier, seed):
    quick = tier == 'quick'
    jobs = [dict({'prog': item[1], 'vars': item[2], 'label': item[0]}, **(item[3] if len(item) > 3 else {})) for item in programs(tier)]
    famG = dict(name='repeat_rendering', module=HG, fn='H', jobs=jobs, timeout=300 if quick else 900, batch=2,
                vacuity=1, program_key='prog',
                mutants=[{'name': 'repeat_separator_ge', 'cfg': jobs[0]},
                         {'name': 'repeat_index_shared', 'cfg': [j for j in jobs if j['label'] == 'nested-same-name'][0]}])
    famA = dict(name='repeat_arithmetic_unbounded', module=HK, fn='arith', jobs=[{}], timeout=300, vacuity=1,
                mutants=[{'name': 'index_off_by_one', 'cfg': {}}, {'name': 'end_wrong', 'cfg': {}}])
    lj = [{'lo': 0, 'hi': 26}, {'lo': 26, 'hi': 26 * 26}]
    if not quick:
        lj.append({'lo': 26 * 26, 'hi': 26 * 26 + 26 * 8})
        lj.append({'lo': 26 ** 3 - 30, 'hi': 26 ** 3 + 30})
    famL = dict(name='repeat_letter', module=HK, fn='letter', jobs=lj, timeout=600 if quick else 1500, vacuity=1,
                mutants=[])
    rj = []
    bases = [(0, 1), (0, 10), (0, 100), (0, 1000), (1994, 1000), (3040, 1), (990, 1000)]
    if not quick:
        bases += [(4000, 1), (2400, 10), (3009, 100), (10000, 1000), (88, 100)]
    for base, place in bases:
        rj.append({'base': base, 'place': place})
    famR = dict(name='repeat_roman_digits', module=HK, fn='roman', jobs=rj, timeout=300, vacuity=1,
                mutants=[{'name': 'roman_table_3999', 'cfg': {'base': 0, 'place': 1000}}])
    return dict(
        level='model_checking',
        functions=['chameleon.tal:RepeatItem.index', 'chameleon.tal:RepeatItem.number', 'chameleon.tal:RepeatItem.start',
                   'chameleon.tal:RepeatItem.end', 'chameleon.tal:RepeatItem.even', 'chameleon.tal:RepeatItem.odd',
                   'chameleon.tal:RepeatItem.parity', 'chameleon.tal:RepeatItem._letter', 'chameleon.tal:RepeatItem.Roman',
                   'chameleon.tal:RepeatItem.roman', 'chameleon.tal:RepeatDict.__call__',
                   'chameleon.compiler:Compiler.visit_Repeat', 'chameleon.zpt.program:MacroProgram.visit_element',
                   'chameleon.zpt.program:MacroProgram.visit_text'],
        bounds=('position arithmetic (index, number, start, end, even, odd, parity, length): all 0 <= pos < length, no '
                'bound; letter/Letter: all positions in %s; roman/Roman: one symbolic decimal digit at each place over %d '
                'digit contexts (values up to 10999, includes the 3999/4000 boundary); rendering: %d templates (12 iterable '
                'kinds incl. one-shot generator/iterator, None, tuple unpacking, nesting depth <= %d with distinct and '
                'reused names, element after "\\n"+indent of 0/2/4/6, after a sibling) with sequence length 0..3 decided '
                'by the solver. Outside: repeated element that does not start on its own line (statement silent), '
                'tal:block repeats, tab indentation.' % ('[0,676)' if quick else '[0,884) and around 17576',
                                                          len(rj), len(jobs), 2 if quick else 3)),
        assumptions=['iterator stand-in with a symbolic __length_hint__ (the documented list-iterator contract)',
                     'callableint/callablestr construction modelled as identity in the arithmetic kernel (int/str subclass '
                     'construction is a C boundary); the rendering family uses the real wrappers',
                     'letter beyond z: the documented bijective form (aa) and the zope.tales positional form (ba) are both '
                     'accepted -- documentation and reference implementation disagree, statement silent'],
        families=[famG, famA, famL, famR],
    )
