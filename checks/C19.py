"""C19 -- strict mode changes only when an invalid expression is reported (DESIGN.md 4, C19)."""
import random

from vlib.tprog import py

H = 'checks.hC19'
BAD = '1 +'          # syntactically invalid python expression
BAD2 = 'a b'


def bad(site, text=BAD):
    return {'py': text, 'site': site}


def el(tag, *children, **kw):
    d = {'tag': tag, 'children': list(children)}
    d.update(kw)
    return d


def doc(*children):
    return el('div', *children, close_indent=0)


def invalid_programs(tier):
    out = []
    add = lambda label, prog, vars_: out.append((label, prog, vars_))   # noqa: E731
    I = lambda e: {'interp': e}   # noqa: E731,E741
    add('under-condition', doc('a', el('p', 'x', I(bad(0)), condition=py('cv')), 'b'), [['cv', 'bool', 0]])
    add('under-literal-false', doc('a', el('p', 'x', I(bad(0)), condition=py('False')), 'b'), [])
    add('under-literal-false-deep', doc('a', el('p', el('q', content=['text', bad(0)]), condition=py('0')), 'b'), [])
    add('empty-repeat', doc(el('p', I(bad(0)), indent=2, repeat=['x', py('seq')]), 'b'), [['seq', 'lenN', 0]])
    add('content', doc(el('p', 'x', content=['text', bad(0)], condition=py('cv'))), [['cv', 'bool', 0]])
    add('define', doc(el('p', 'x', define=[['local', 'v', bad(0)]], condition=py('cv'))), [['cv', 'bool', 0]])
    add('attributes', doc(el('p', 'x', attributes=[['t', py('1')], ['u', bad(0)]], condition=py('cv'))), [['cv', 'bool', 0]])
    add('later-pipe-alternative', doc(el('p', 'x', content=['text', {'pipe': [py('L(0)'), bad(0)]}])),
        [[0, 'out', 0]])
    add('two-sites-same-text', doc(el('p', I(bad(0)), condition=py('c1')), 'mid', el('q', I(bad(1)), condition=py('c2'))),
        [['c1', 'bool', 0], ['c2', 'bool', 1]])
    add('two-sites-different', doc(el('p', I(bad(0)), condition=py('c1')), 'mid',
                                   el('q', 'x', content=['text', bad(1, BAD2)], condition=py('c2'))),
        [['c1', 'bool', 0], ['c2', 'bool', 1]])
    add('unused-macro', doc('a', el('hide', el('p', 'x', I(bad(0)), define_macro='m'), condition=py('cv')), 'b'), [['cv', 'bool', 0]])
    add('under-replace-nothing', doc('a', el('p', 'x', I(bad(0)), replace=['text', py('nothing')]), 'b'), [])
    add('under-content-none', doc('a', el('p', el('q', I(bad(0))), content=['text', py('None')]), 'b'), [])
    add('on-error-guard', doc(el('p', 'x', I(bad(0)), onerror=['text', py("'E'")]), 'z'), [])
    add('empty-after-prefix', doc(el('p', 'x', content=['text', bad(0, 'python:')], condition=py('cv')), 'mid',
                                  el('q', 'y', condition=bad(1, 'python:'), define=[['local', 'w', py('c2')]])),
        [['cv', 'bool', 0], ['c2', 'bool', 1]])
    add('omit', doc(el('p', 'x', omit=bad(0), condition=py('cv'))), [['cv', 'bool', 0]])
    add('attr-interp', doc(el('p', 'x', static=[['t', ['a', I(bad(0))]]], condition=py('cv'))), [['cv', 'bool', 0]])
    return out


def plan(tier, seed):
    rnd = random.Random(seed)
    quick = tier == 'quick'
    jobs = [{'prog': p, 'vars': v, 'label': 'invalid:' + l} for l, p, v in invalid_programs(tier)]
    # the same on several lines with Windows line endings (normalised before tokenizing outside XML mode)
    for l, p, v in invalid_programs(tier):
        if l in ('under-condition', 'empty-repeat', 'two-sites-different', 'attributes'):
            p2 = {'tag': 'div', 'close_indent': 0, 'children': ['l1', {'tag': 'br', 'indent': 1, 'children': None},
                                                                {'tag': 'w', 'indent': 2, 'children': [p]}]}
            jobs.append({'prog': p2, 'vars': v, 'label': 'invalid:crlf:' + l, 'crlf': True})
    # valid programs: strict and non-strict render identically (metamorphic); reuse the C01 / C04 grammars
    from checks import C01, C04
    valid = C01.plan('quick', seed)['families'][0]['jobs'] + C04.plan('quick', seed)['families'][0]['jobs']
    # only programs that need nothing but the template text and its bindings (this harness compiles with its own
    # options: programs that come with template options or extra builtins are C01's / C04's business)
    valid = [j for j in valid if set(j) <= {'prog', 'vars', 'label'}]
    rnd.shuffle(valid)
    for j in valid[:40 if quick else 400]:
        jobs.append({'prog': j['prog'], 'vars': j['vars'], 'label': 'valid:' + j.get('label', '')})
    by = {j['label']: j for j in jobs}
    fam = dict(name='strict_vs_nonstrict', module=H, fn='H', jobs=jobs, timeout=300 if quick else 900, batch=3,
               vacuity=2, program_key='prog',
               mutants=[{'name': 'nonstrict_swallows', 'cfg': by['invalid:under-condition']},
                        {'name': 'strict_ignored', 'cfg': by['invalid:under-literal-false']},
                        {'name': 'tokenref_first_site', 'cfg': by['invalid:two-sites-same-text']}])
    famL = dict(name='strictness_through_loaders', module=H, fn='via_loader', jobs=[{}], timeout=300, vacuity=1, mutants=[])
    return dict(
        level='translation_validation',
        functions=['chameleon.compiler:ExpressionTransform.__call__', 'chameleon.template:BaseTemplate._compile',
                   'chameleon.tales:PythonExpr.translate', 'chameleon.exc:ExpressionError',
                   'chameleon.zpt.template:PageTemplate.digest'],
        bounds=('%d templates with one or two syntactically invalid expressions planted at sites whose reachability '
                'depends on bindings (condition, literally false condition, empty repeat, a macro definition that is not rendered, dummy content under tal:replace="nothing" / tal:content="None", later pipe alternative, '
                'on-error guard; content/define/attributes/omit-tag/${} sites; same and different invalid text twice): '
                'strict construction must raise ExpressionError located at the first site, non-strict construction must '
                'succeed and render must raise the ExpressionError located at the reached site (token, offset, line and '
                'column) iff the reference interpreter reaches it; 4 of them again spread over several lines with CRLF '
                'line endings; %d valid templates from the C01/C04 grammars render identically under both '
                'settings. Bindings decided by the solver. The strict option given / not given to PageTemplateLoader (load, [] and text format) and to a PageTemplateFile pulling a page in with load: reaches the created template (strict, reached and the route are chosen by the solver; compilation concrete). Outside: invalid non-python expression types.'
                % (len(invalid_programs(tier)), len(jobs) - len(invalid_programs(tier)) - 4)),
        assumptions=['reachability oracle = reference interpreter vlib/refsem.py', 'offset of a planted site = position of its '
                     'text in the template the harness serialised'],
        families=[fam, famL],
    )
