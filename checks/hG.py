"""Engine G harness: real compiled render function vs. the reference interpreter on the same
symbolic bindings (DESIGN.md 3.2).

CFG keys:  prog (TProg root element), vars: [[name, kind, slot], ...] with kind in
  'bool' (b<slot>), 'int' (i<slot> in [0,N)), 'cls' (value class table index), 'len' (list of
  that length), options: dict of PageTemplate keyword options, mutant, negate, check_log (bool).
"""
import re

from chameleon import PageTemplate
from chameleon.tales import DEFAULT_MARKER

from vlib import refsem
from vlib import tprog

CFG = {}
N = [1, 1, 1, 1, 1, 1]          # exclusive upper bounds of i0..i5 (read by the pre-conditions)
STATE = {}
LOG = []

CLS = [None, DEFAULT_MARKER, False, True, 0, 2, '', 'a<']
CLS_S = [None, DEFAULT_MARKER, '', 'a<', 'plain']
CLS_T = [DEFAULT_MARKER, '', 'a<', 'plain']
KIND_N = {'cls': len(CLS), 'len': 4, 'lenN': 5, 'int': 4, 'cls_nd': len(CLS)}


class StrObj:
    """an object whose string form contains markup"""

    def __str__(self):
        return 'o<b>&'


# further value classes of the C01 quantifier: bytes, sequences, dicts, floats, arbitrary objects, empty containers
CLS_X = [b'by<e', [1, 'a<'], (3,), {'k': 1}, 1.5, StrObj(), [], {}, b'']
KIND_N['cls_x'] = len(CLS_X)


def rec(tag, value=None):
    LOG.append(tag)
    return value


def show(v):
    """probe helper (repr() is short-circuited probabilistically by CrossHair: it carries a contract)"""
    if v is None:
        return 'None'
    if callable(v):
        return 'callable'
    return str(v)


class CustomExc(Exception):
    pass


EXC = [AttributeError, NameError, KeyError, IndexError, LookupError, TypeError, ValueError,
       ZeroDivisionError, RuntimeError, CustomExc]
KIND_N['out'] = len(EXC) + 1


def pick(table, idx):
    """table[idx] for a symbolic idx by explicit case split (indexing a list of classes/objects with
    a symbolic int makes CrossHair build a symbolic *type*, which it cannot exhaust)."""
    for j in range(len(table)):
        if idx == j:
            return table[j]
    raise IndexError(idx)


_R5 = [0, 1, 2, 3, 4]


class Message:
    def __init__(self, text):
        self.text = text

    def __str__(self):
        return self.text


def make_T(log):
    """recording translation function whose return value exposes every argument it was given"""
    def T(msgid, domain=None, mapping=None, context=None, target_language=None, default=None):
        log.append('T')
        text = default if default is not None else msgid
        if mapping:
            for k in sorted(mapping):
                text = text.replace('${%s}' % k, '{%s}' % mapping[k])
        return '[%s|%s|%s|%s:%s]' % (domain, context, target_language, msgid if isinstance(msgid, str) else '?', text)
    return T


def make_iterable(kind, n):
    items = [10, 11, 12][:n]
    if kind == 'list':
        return list(items)
    if kind == 'tuple':
        return tuple(items)
    if kind == 'range':
        return range(10, 10 + n)
    if kind == 'generator':
        return (x for x in items)          # one-shot
    if kind == 'iterator':
        return iter(items)
    if kind == 'dictkeys':
        return {k: 1 for k in items}.keys()
    if kind == 'dict':
        return {k: 1 for k in items}
    if kind == 'str':
        return 'xyz'[:n]
    if kind == 'pairs':
        return [(k, k + 100) for k in items]
    if kind == 'set1':
        return set(items[:1])
    if kind == 'userlist':
        import collections
        return collections.UserList(items)
    if kind == 'customseq':
        return CustomSeq(items)
    if kind == 'mappingkeys':
        return CustomMapping(items).keys()
    if kind == 'deque':
        import collections
        return collections.deque(items)
    raise KeyError(kind)


class CustomSeq:
    """a sized, indexable collection whose iterator is a plain generator (collections.abc.Sequence style)"""

    def __init__(self, items):
        self._items = list(items)

    def __len__(self):
        return len(self._items)

    def __getitem__(self, i):
        return self._items[i]

    def __iter__(self):
        for x in self._items:
            yield x


class CustomMapping:
    def __init__(self, items):
        self._d = {k: 1 for k in items}

    def __getitem__(self, k):
        return self._d[k]

    def __iter__(self):
        for k in self._d:
            yield k

    def __len__(self):
        return len(self._d)

    def keys(self):
        import collections.abc
        return collections.abc.KeysView(self)


def make_L(outs, vals, log):
    """recording leaf: L(k) logs, then returns vals[k] or raises the exception class selected by the
    symbolic outcome outs[k] (0 = succeeds)."""
    def L(k):
        log.append('L%d' % k)
        o = outs.get(k, 0)
        if o == 0:
            return vals.get(k, 1)
        raise pick(EXC, o - 1)('boom%d' % k)
    return L


class HasAttr:
    k = 'attr'


class HasItem:
    def __getitem__(self, name):
        if name == 'k':
            return 'item'
        raise KeyError(name)


class ItemIndexError:
    def __getitem__(self, name):
        raise IndexError(name)


class Plain:
    pass


class AttrAndItem:
    """has both an attribute and an item of that name: the attribute wins"""
    k = 'attr-wins'
    keys = 'attr-keys'

    def __getitem__(self, name):
        return 'item-loses'


class DictSub(dict):
    pass


OBJ = [HasAttr(), HasItem(), {'k': 'dictitem'}, {'z': 1}, Plain(), ItemIndexError(), None, 3]
KIND_N['obj'] = len(OBJ)
# objects whose own attributes collide with item names: attribute access comes first
OBJ2 = [{'keys': 'item', 'a': 1}, {'b': 2}, AttrAndItem(), DictSub({'keys': 'item'}), {'items': 3, 'get': 4, 'keys': 5}]
KIND_N['obj2'] = len(OBJ2)
KIND_N['maybe3'] = 3
KIND_N['cls_s'] = 5
KIND_N['cls_t'] = 3
KIND_N['out3'] = 3
OUT3 = [0, 7, 10]      # succeeds / ValueError / CustomExc
HANDLER_CALLS = []
BOOL_KINDS = ('bool', 'lbool', 'maybe', 'llist', 'lconst', 'msg')


def _mutate(name):
    from chameleon import compiler as cc
    from chameleon.zpt import program as zp
    if name == 'define_not_reversed':
        # seeded: restore locals in definition order instead of reverse order
        src_fn = cc.Compiler.visit_Define
        import inspect
        import textwrap
        code = textwrap.dedent(inspect.getsource(src_fn)).replace(
            'for assignment in reversed(node.assignments):', 'for assignment in node.assignments:')
        ns = dict(src_fn.__globals__)
        exec(code, ns)
        cc.Compiler.visit_Define = ns['visit_Define']
    elif name == 'condition_after_repeat':
        real = zp.wrap

        def wrap(node, *wrappers):
            ws = list(wrappers)
            if len(ws) >= 6:
                ws[3], ws[4] = ws[4], ws[3]     # swap CONDITION and REPEAT
            return real(node, *ws)
        zp.wrap = wrap
    elif name == 'none_content_keeps_children':
        import inspect
        import textwrap
        src_fn = zp.MacroProgram._make_content_node
        code = textwrap.dedent(inspect.getsource(src_fn)).replace(
            'nodes.BinOp(value, nodes.Is, self.default_marker)',
            'nodes.BinOp(value, nodes.Is, Static(ast.Constant(None)))')
        ns = dict(src_fn.__globals__)
        exec(code, ns)
        zp.MacroProgram._make_content_node = ns['_make_content_node']
    elif name == 'backup_none_sentinel':
        # seeded: None instead of the private marker as "was unbound" sentinel (two cooperating sites)
        import ast
        from chameleon.codegen import template

        def _enter_assignment(self, names):
            for name in names:
                yield from template("BACKUP = get(KEY)", BACKUP=cc.identifier("backup_%s" % name, id(names)),
                                    KEY=ast.Constant(str(name)))

        def _leave_assignment(self, names):
            for name in names:
                yield from template("if BACKUP is None: del econtext[KEY]\nelse:                 econtext[KEY] = BACKUP",
                                    BACKUP=cc.identifier("backup_%s" % name, id(names)), KEY=ast.Constant(str(name)))
        cc.Compiler._enter_assignment = _enter_assignment
        cc.Compiler._leave_assignment = _leave_assignment
    elif name == 'onerror_no_truncate':
        import inspect
        import textwrap
        src_fn = cc.Compiler.visit_OnError
        code = textwrap.dedent(inspect.getsource(src_fn)).replace('"del __stream[fallback:]"', '"pass"')
        ns = dict(src_fn.__globals__)
        exec(code, ns)
        cc.Compiler.visit_OnError = ns['visit_OnError']
    elif name == 'onerror_catches_base':
        import inspect
        import textwrap
        src_fn = cc.Compiler.visit_OnError
        code = textwrap.dedent(inspect.getsource(src_fn)).replace('Builtin("Exception")', 'Builtin("LookupError")')
        ns = dict(src_fn.__globals__)
        exec(code, ns)
        cc.Compiler.visit_OnError = ns['visit_OnError']
    elif name in ('repeat_separator_ge', 'repeat_index_shared'):
        import inspect
        import textwrap
        src_fn = cc.Compiler.visit_Repeat
        code = textwrap.dedent(inspect.getsource(src_fn))
        if name == 'repeat_separator_ge':
            code = code.replace('"if INDEX > 0: __append(WHITESPACE)"', '"if INDEX >= 0: __append(WHITESPACE)"')
        else:
            code = code.replace('identifier("__index", id(node))', 'identifier("__index", "_".join(node.names))')
        assert code != textwrap.dedent(inspect.getsource(src_fn))
        ns = dict(src_fn.__globals__)
        exec(code, ns)
        cc.Compiler.visit_Repeat = ns['visit_Repeat']
    elif name == 'visit_text_skips_escaped':
        import inspect
        import textwrap
        src_fn = zp.MacroProgram.visit_text
        code = textwrap.dedent(inspect.getsource(src_fn)).replace(
            "if self._interpolation[-1] and '${' in node:",
            "if self._interpolation[-1] and '${' in node.replace('$${', ''):")
        assert code != textwrap.dedent(inspect.getsource(src_fn))
        ns = dict(src_fn.__globals__)
        exec(code, ns)
        zp.MacroProgram.visit_text = ns['visit_text']
    elif name == 'i18n_backup_by_value':
        def visit_Domain(self, node):
            backup = "__previous_i18n_domain_%s" % cc.mangle(node.name)
            return cc.template("BACKUP = __i18n_domain", BACKUP=backup) + \
                cc.template("__i18n_domain = NAME", NAME=cc.ast.Constant(node.name)) + \
                self.visit(node.node) + cc.template("__i18n_domain = BACKUP", BACKUP=backup)
        cc.Compiler.visit_Domain = visit_Domain
    elif name == 'attribute_target_from_context':
        # the pre-fix behaviour: the generated translation call of an attribute names target_language as an
        # ordinary (context-looked-up) name instead of the render function's local variable
        def visit_Translate(self, node, target):
            msgid = cc.ast.Constant(node.msgid) if node.msgid is not None else target
            return self._translate(node.node, target) + cc.emit_translate(target, msgid, default=target)
        cc.ExpressionTransform.visit_Translate = visit_Translate
    elif name == 'msgid_not_normalised':
        import inspect
        import textwrap
        src_fn = cc.Compiler.visit_Translate
        code = textwrap.dedent(inspect.getsource(src_fn)).replace(
            "\"msgid = __re_whitespace(''.join(stream)).strip()\"", "\"msgid = ''.join(stream).strip()\"")
        assert code != textwrap.dedent(inspect.getsource(src_fn))
        ns = dict(src_fn.__globals__)
        exec(code, ns)
        cc.Compiler.visit_Translate = ns['visit_Translate']
    elif name == 'pipe_catches_zerodiv':
        from chameleon import tales
        tales.TalesExpr.exceptions = tales.TalesExpr.exceptions + (ArithmeticError,)
        tales.PythonExpr.exceptions = tales.TalesExpr.exceptions
    elif name == 'exists_misses_nameerror':
        from chameleon import tales
        tales.ExistsExpr.exceptions = (AttributeError, LookupError, TypeError)
    else:
        raise KeyError(name)


def collect_sources(node, acc):
    def ex(e):
        if 'py' in e:
            acc.add(e['py'])
        if 'attr' in e:
            ex(e['attr'][0])
        for k in ('pipe', 'string'):
            for x in e.get(k, []):
                if isinstance(x, dict):
                    ex(x)
        for k in ('not', 'exists', 'structure', 'python'):
            if k in e:
                ex(e[k])
    if isinstance(node, str):
        return
    if 'interp' in node:
        ex(node['interp'])
        return
    if 'dollar' in node:
        return
    if 'comment' in node or 'cdata' in node:
        for part in node.get('comment', node.get('cdata')):
            if not isinstance(part, str) and 'interp' in part:
                ex(part['interp'])
        return
    for sc, n, e in node.get('define', []):
        ex(e)
    for n, v in node.get('static', []):
        if not isinstance(v, str):
            for part in v:
                if not isinstance(part, str) and 'interp' in part:
                    ex(part['interp'])
    for k in ('condition', 'switch', 'case'):
        if k in node:
            ex(node[k])
    if 'repeat' in node:
        ex(node['repeat'][1])
    for k in ('content', 'replace', 'onerror'):
        if k in node:
            ex(node[k][1])
    if node.get('omit'):
        ex(node['omit'])
    if node.get('i18n_target'):
        acc.add(node['i18n_target'])
    for n, e in node.get('attributes', []):
        ex(e)
    for c in node.get('children') or []:
        collect_sources(c, acc)


class FalsyHandler:
    """an error log used as on_error_handler: callable, and empty (false) as long as nothing was logged"""

    def __call__(self, exc):
        HANDLER_CALLS.append(_base_name(exc))

    def __len__(self):
        return 0


def prepare(cfg):
    if cfg.get('mutant'):
        _mutate(cfg['mutant'])
    prog = cfg['prog']
    spelling = None
    if cfg.get('spelling') == 'data':        # statements written as data-tal-* attributes (option on)
        spelling = {'form': 'data'}
    text = tprog.serialise(prog, spelling=spelling)
    if cfg.get('crlf'):
        text = text.replace('\n', '\r\n')      # Windows line endings (normalised by the engine outside XML mode)
    STATE['text'] = text
    opts = dict(cfg.get('options', {}))
    if spelling is not None:
        opts['enable_data_attributes'] = True
    if cfg.get('extra_builtins'):
        opts['extra_builtins'] = dict(cfg['extra_builtins'])
    if 'implicit_i18n_attributes' in opts:
        opts['implicit_i18n_attributes'] = set(opts['implicit_i18n_attributes'])
    if cfg.get('handler') == 'falsy':
        opts['on_error_handler'] = FalsyHandler()
    elif cfg.get('handler'):
        opts['on_error_handler'] = lambda exc: HANDLER_CALLS.append(_base_name(exc))
    STATE['compile_error'] = None
    try:
        STATE['template'] = PageTemplate(text, **opts)
    except Exception as exc:        # a valid generated program must compile: counted as disagreement
        STATE['template'] = None
        STATE['compile_error'] = '%s: %s' % (type(exc).__name__, str(exc)[:300])
    STATE['case_and_condition'] = any('case' in e and 'condition' in e for e in tprog.walk(prog))
    STATE['switch_and_guard'] = any('switch' in e and ('condition' in e or 'repeat' in e) for e in tprog.walk(prog))
    srcs = set()
    collect_sources(prog, srcs)
    STATE['codes'] = {}
    for src in srcs:
        try:
            STATE['codes'][src] = compile(src, '<probe>', 'eval')
        except SyntaxError:
            STATE['codes'][src] = None       # planted invalid expression (C19)
    for k in range(6):
        N[k] = 1
    for name, kind, slot in cfg.get('vars', []):
        if kind not in BOOL_KINDS and slot is not None:
            N[slot] = KIND_N.get(kind, 4)


def bind(ints, bools):
    b = {}
    outs = {}
    vals = {}
    b['__outs__'] = outs
    b['__vals__'] = vals
    for name, kind, slot in CFG.get('vars', []):
        if kind == 'out':            # name = leaf number
            outs[name] = ints[slot]
            continue
        if kind == 'out3':
            outs[name] = pick(OUT3, ints[slot])
            continue
        if kind == 'lbool':          # leaf value: symbolic bool
            vals[name] = bools[slot]
            continue
        if kind == 'lconst':         # leaf value: the constant given in the slot field
            vals[name] = slot
            continue
        if kind == 'llist':          # leaf value: a list (for repeat sites)
            vals[name] = [7, 8]
            continue
        if kind == 'obj':
            b[name] = pick(OBJ, ints[slot])
            continue
        if kind == 'obj2':
            b[name] = pick(OBJ2, ints[slot])
            continue
        if kind == 'msg':            # a message object: neither text, number nor __html__
            b[name] = Message('M%s' % slot)
            continue
        if kind.startswith('iter:'):  # iterable of the given kind with symbolic length 0..3
            n = pick(_R5[:4], ints[slot])
            b[name] = make_iterable(kind[5:], n)
            continue
        if kind == 'maybe3':         # unbound / bound to None / bound to 5
            if ints[slot] == 1:
                b[name] = None
            elif ints[slot] == 2:
                b[name] = 5
            continue
        if kind == 'maybe':          # variable bound (to 5) or not bound at all
            if bools[slot]:
                b[name] = 5
            continue
        if kind == 'bool':
            b[name] = bools[slot]
        elif kind == 'int':
            b[name] = ints[slot]
        elif kind == 'cls':
            b[name] = pick(CLS, ints[slot])
        elif kind == 'cls_x':
            b[name] = pick(CLS_X, ints[slot])
        elif kind == 'cls_s':
            b[name] = pick(CLS_S, ints[slot])
        elif kind == 'cls_t':
            b[name] = pick(CLS_T, ints[slot] + (1 if CFG.get('no_default') else 0))
        elif kind == 'cls_nd':
            v = pick(CLS, ints[slot])
            b[name] = 5 if v is DEFAULT_MARKER else v
        elif kind == 'len':
            b[name] = list(range(pick(_R5, ints[slot])))       # concrete length per path
        elif kind == 'lenN':
            n = pick(_R5, ints[slot])
            b[name] = None if n == 4 else list(range(n))
        else:
            raise KeyError(kind)
    return b


def run_engine(bindings):
    del LOG[:]
    b = dict(bindings)
    outs = b.pop('__outs__', {})
    vals = b.pop('__vals__', {})
    b['rec'] = rec
    b['show'] = show
    b['L'] = make_L(outs, vals, LOG)
    if CFG.get('i18n'):
        b['translate'] = make_T(LOG)
        if CFG.get('target_language') is not None:
            b['target_language'] = CFG['target_language']
    del HANDLER_CALLS[:]
    if STATE.get('compile_error'):
        return ('compile-error', STATE['compile_error'], [])
    try:
        out = STATE['template'].render(**b)
        if CFG.get('handler'):
            out = out + '#handler:' + ','.join(HANDLER_CALLS)
        return ('ok', out, list(LOG))
    except Exception as exc:
        extra = None
        loc = None
        if hasattr(exc, 'token') and hasattr(exc, 'offset'):
            extra = (str(exc.token), exc.offset)
            loc = getattr(exc.token, 'location', None)
        return ('exc', _base_name(exc), list(LOG), extra, loc)


def _base_name(exc):
    # render errors are re-typed subclasses: report the first builtin/base class name
    for c in type(exc).__mro__:
        if c.__module__ in ('builtins', 'checks.hG', 'vlib.refsem', 'chameleon.exc') and c.__name__ != 'RenderError':
            return c.__name__
    return type(exc).__name__


def run_ref(bindings, **kw):
    log = []

    def rrec(tag, value=None):
        log.append(tag)
        return value
    bindings = dict(bindings)
    outs = bindings.pop('__outs__', {})
    vals = bindings.pop('__vals__', {})
    opts = dict(CFG.get('options') or {})
    if CFG.get('target_language') is not None:
        opts['target_language'] = CFG['target_language']
    # with the recording translation function installed (i18n programs) values that are neither text, number nor
    # __html__ objects show up in its log; with the default function they are simply converted
    opts['__recording_translate__'] = bool(CFG.get('i18n'))
    helpers = dict(CFG.get('extra_builtins') or {})       # names the template class offers as builtins
    helpers.update({'rec': rrec, 'show': show, 'L': make_L(outs, vals, log), '__translate__': make_T(log)})
    ref = refsem.Ref(DEFAULT_MARKER, STATE['codes'], helpers=helpers, log=log,
                     options=opts, **kw)
    scope = refsem.RScope(bindings)
    out = []
    try:
        ref.render(CFG['prog'], scope, out)
        text = ''
        for s in out:
            text = text + s
        if CFG.get('handler'):
            text = text + '#handler:' + ','.join(_base_name(e) for e in ref.handler_calls)
        return ('ok', text, log, ref.marks)
    except Exception as exc:
        return ('exc', _base_name(exc), log, ref.marks, exc.args)


def _agree1(eng, ref):
    if eng[0] != ref[0] or eng[1] != ref[1]:
        return False
    if CFG.get('check_log', True):
        return refsem.logs_agree(eng[2], ref[2], ref[3])
    return True


def agree(bindings):
    """bindings: dict, or a zero-argument factory (fresh one-shot iterators for each side)"""
    mk = bindings if callable(bindings) else (lambda: bindings)
    eng = run_engine(mk())
    if _agree1(eng, run_ref(mk())):
        return True
    if STATE.get('case_and_condition'):
        # documentation and implementation order case/condition differently: either is admissible
        if _agree1(eng, run_ref(mk(), case_first=True)):
            return True
    if STATE.get('switch_and_guard'):
        # documentation evaluates tal:switch before tal:condition / tal:repeat of the same element, the
        # implementation after them (once per repetition): either is admissible
        return _agree1(eng, run_ref(mk(), switch_first=True))
    return False


def H(i0: int, i1: int, i2: int, i3: int, i4: int, i5: int,
      b0: bool, b1: bool, b2: bool, b3: bool, b4: bool, b5: bool) -> bool:
    """
    pre: 0 <= i0 < N[0] and 0 <= i1 < N[1] and 0 <= i2 < N[2]
    pre: 0 <= i3 < N[3] and 0 <= i4 < N[4] and 0 <= i5 < N[5]
    post: _
    """
    ok = agree(lambda: bind((i0, i1, i2, i3, i4, i5), (b0, b1, b2, b3, b4, b5)))
    return (not ok) if CFG.get('negate') else ok


def explain(cfg, *args):
    ints, bools = args[:6], args[6:]
    b = bind(ints, bools)
    return {'template': STATE['text'], 'bindings': {k: repr(v) for k, v in b.items()},
            'engine': run_engine(b), 'reference': run_ref(b)[:3]}
