"""C20 harness: text-mode templates copy their source verbatim except for ${...} and $$."""
from chameleon import PageTextTemplate
from chameleon import tokenize as tk

from checks import hC03

CFG = {}
STATE = {}

TEMPLATES = {
    't1': ['a<b>&amp; ', 0, ' $$ ', 0, '!'],
    't2': ['<p tal:content="x">', 0, '</p><!--! c -->'],
    't3': ['Total: $$', 0, '.00 {x} $ }'],
    't4': ['<?xml version="1.0"?>\n', 0, '&lt;'],
    't5': [0, '<![CDATA[', 0, ']]>'],
    # ['expr', source, value]: a constant expression rich in braces/quotes/$
    't6': [['expr', "'{' + \"}\" + '$'", '{}$'], '|', 0, ['expr', "{'k': '}'}['k']", '}']],
}


def build(shape, cs):
    s = ''
    for piece in shape:
        s = s + (chr(cs[piece]) if isinstance(piece, int) else piece)
    return s


def _mutate(name):
    from chameleon.zpt import template as zt
    from chameleon.zpt import program as zp
    import inspect
    import textwrap
    if name == 'text_mode_escapes':
        src_fn = zt.PageTemplate.parse
        code = textwrap.dedent(inspect.getsource(src_fn)).replace('escape=True if self.mode == "xml" else False',
                                                                  'escape=True')
        assert code != textwrap.dedent(inspect.getsource(src_fn))
        ns = dict(src_fn.__globals__)
        exec(code, ns)
        zt.PageTemplate.parse = ns['parse']
    elif name == 'incremental_encoder_cached':
        import codecs

        def render(self, **vars):
            result = zt.PageTemplateFile.render(self, **vars)
            encode = self.__dict__.get('_encode')
            if encode is None:
                encode = self.__dict__['_encode'] = codecs.getincrementalencoder(self.encoding or 'utf-8')().encode
            return encode(result)
        zt.PageTextTemplateFile.render = render
    elif name == 'digest_ignores_template_kind':
        from vlib.mutants import digest_ignores_template_kind
        digest_ignores_template_kind()
    elif name == 'dollar_kept':
        src_fn = zp.MacroProgram.visit_text
        code = textwrap.dedent(inspect.getsource(src_fn)).replace("node = node.replace('$$', '$')", "node = node")
        assert code != textwrap.dedent(inspect.getsource(src_fn))
        ns = dict(src_fn.__globals__)
        exec(code, ns)
        zp.MacroProgram.visit_text = ns['visit_text']
    elif name == 'text_identified_as_markup':
        from chameleon import program as cp
        from chameleon.parser import ElementParser

        def __init__(self, source, mode="xml", filename=None, tokenizer=None):
            if tokenizer is None:
                tokenizer = self.tokenizers[mode]
            tokens = tokenizer(source, filename)
            parser = ElementParser(tokens, self.DEFAULT_NAMESPACES, self.restricted_namespace)
            self.body = []
            for kind, args in parser:
                node = self.visit(kind, args)
                if node is not None:
                    self.body.append(node)
        cp.ElementProgram.__init__ = __init__
    else:
        raise KeyError(name)


def prepare(cfg):
    if cfg.get('mutant'):
        _mutate(cfg['mutant'])
    if cfg.get('file'):
        prepare_file(cfg)
    if cfg.get('template'):
        shape = TEMPLATES[cfg['template']]
        text = ''.join('${v}' if isinstance(p, int) else ('${' + p[1] + '}' if isinstance(p, list) else p)
                       for p in shape)
        STATE['shape'] = shape
        try:
            if cfg.get('shared_cache') == 'file':
                # one source file served as markup first, then as text, both cooked through one module cache
                from chameleon import PageTemplateFile, PageTextTemplateFile
                from vlib.cachepair import cook_files_through_one_cache
                STATE['tpl'] = cook_files_through_one_cache(text, [(PageTemplateFile, {}), (PageTextTemplateFile, {})])[1]
                STATE['bytes'] = True
            elif cfg.get('shared_cache'):
                # the same source compiled as a markup template first, both through one on-disk module cache
                from chameleon import PageTemplate
                from vlib.cachepair import compile_through_one_cache
                STATE['tpl'] = compile_through_one_cache([(PageTemplate, text, {}), (PageTextTemplate, text, {})])[1]
            else:
                STATE['tpl'] = PageTextTemplate(text)
        except Exception as exc:      # a valid text template must compile: counted as failure of every input
            STATE['tpl'] = None
            STATE['compile_error'] = repr(exc)[:300]


def _res(ok):
    return (not ok) if CFG.get('negate') else ok


def verbatim(c0: int, c1: int, c2: int, c3: int) -> bool:
    """
    pre: 0 <= c0 < 0x110000 and 0 <= c1 < 0x110000 and 0 <= c2 < 0x110000 and 0 <= c3 < 0x110000
    post: _
    """
    s = build(CFG['shape'], (c0, c1, c2, c3))
    toks = list(tk.iter_text(s))
    if len(toks) != 1 or toks[0] != s or toks[0].pos != 0:
        return _res(False)
    if '${' in s:
        return _res(True)                 # interpolation: C06 kernel
    prog = hC03._Program(s, 'text', '<string>', escape=False, boolean_attributes=frozenset())
    c = hC03._compiler()
    out = ''
    for node in prog.body:
        for st in c.visit(node):
            if isinstance(st, hC03.cc.EmitText):
                out = out + st.s
            elif not isinstance(st, hC03.cc.Comment):
                return _res(False)
    want = s.replace('$$', '$')
    return _res(out == want)


class Obj:
    def __init__(self, s):
        self.s = s

    def __str__(self):
        return self.s


def render(c0: int, c1: int, c2: int, c3: int) -> bool:
    """
    pre: 0 <= c0 < 0x110000 and 0 <= c1 < 0x110000 and 0 <= c2 < 0x110000 and 0 <= c3 < 0x110000
    post: _
    """
    k = CFG.get('k', 2)
    v = ''
    for i in range(k):
        v = v + chr((c0, c1, c2, c3)[i])
    kind = CFG.get('kind', 'str')
    val = v if kind == 'str' else (Obj(v) if kind == 'object' else None)
    if STATE.get('tpl') is None:
        return _res(False)
    got = STATE['tpl'].render(v=val)
    if STATE.get('bytes'):
        got = got.decode('utf-8', 'surrogatepass')      # a text template file renders to bytes
    want = ''
    for p in STATE['shape']:
        if isinstance(p, list):
            want = want + p[2]
        elif isinstance(p, int):
            want = want + ('' if val is None else v)
        else:
            want = want + p.replace('$$', '$')
    return _res(got == want)


def explain(cfg, *args):
    if cfg.get('template'):
        v = ''.join(chr(c) for c in args[:cfg.get('k', 2)])
        if STATE.get('tpl') is None:
            return {'compile_error': STATE.get('compile_error')}
        return {'value': v, 'rendered': STATE['tpl'].render(v=v)}
    return {'text': build(cfg['shape'], args)}


def render_entity_witness():
    """known-finding witness: returns True iff text mode leaves the expression text alone"""
    return PageTextTemplate("${'&amp;'}").render() == '&amp;'


# ---- text template *files* render to bytes: the encoded form of the string result, on every call --------
FILE_TEXT = 'Dear ${v},\n<b>&amp;</b> $$ ${w}\n'
ENCODINGS = ['utf-8', 'latin-1', 'utf-16', 'utf-8-sig', 'utf-32', 'iso2022_jp']
VALUES = ['a', 'caf\xe9', '<&>', '', 'あ']
FPATH = '/model/mail.txt'


def prepare_file(cfg):
    from chameleon import PageTextTemplateFile
    from chameleon import template as ct
    from checks import hC16
    ct.open = hC16.model_open
    ct.os = hC16._ModelOS()
    hC16.FILES.clear()
    hC16.FILES[FPATH] = [FILE_TEXT.encode('utf-8'), 3]
    STATE['ftpl'] = {}
    STATE['stpl'] = PageTextTemplate(FILE_TEXT)
    for enc in ENCODINGS:
        t = PageTextTemplateFile(FPATH, encoding=enc)
        t.cook_check()                    # compiled natively; nothing rendered yet
        STATE['ftpl'][enc] = t


def pickv(table, idx):
    for j in range(len(table)):
        if idx == j:
            return table[j]
    raise IndexError(idx)


def file_bytes(e: int, i0: int, i1: int, i2: int) -> bool:
    """
    pre: 0 <= e < 6 and 0 <= i0 < 5 and 0 <= i1 < 5 and 0 <= i2 < 5
    post: _
    """
    import copy
    from vlib.notrace import NoTracing
    enc = pickv(ENCODINGS, e)
    vals = [pickv(VALUES, i) for i in (i0, i1, i2)]
    with NoTracing():
        # an instance of its own per history (a shallow copy shares the compiled program, not the state)
        t = copy.copy(STATE['ftpl'][enc])
        s = STATE['stpl']
        ok = True
        for n, v in enumerate(vals):
            want = s.render(v=v, w=n)
            try:
                wb = want.encode(enc)
            except UnicodeEncodeError:
                continue                          # not expressible in this encoding: no claim
            got = t.render(v=v, w=n)
            ok = ok and isinstance(got, bytes) and got == wb and got.decode(enc) == want
    return _res(ok)
