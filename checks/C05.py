"""C05 -- variable scoping: locals end with their element, globals persist (DESIGN.md 4, C05)."""
import random

from vlib.tprog import py

HG = 'checks.hG'
HK = 'checks.hC05'

POOL = ['a', 'len', 'str', 'get', 'getname', 're', 'functools', 'intern', 'id', 'convert']


def probe(n, tag):
    # prints the visible value, or U when the name is undefined
    return {'tag': 'u', 'children': [tag + '=', {'interp': {'pipe': [py('show(%s)' % n), py("'U'")]}}]}


def doc(*children):
    return {'tag': 'div', 'close_indent': 0, 'children': list(children)}


def templates(n, m='m2'):
    P = lambda t: probe(n, t)   # noqa: E731
    out = []
    out.append(('nested-local', doc(P('0'), {'tag': 'x', 'define': [['local', n, py('2')]], 'children': [
        P('1'), {'tag': 'y', 'define': [['local', n, py('12')]], 'children': [P('2')]}, P('3')]}, P('4')),
        [[n, 'maybe3', 0]]))
    # the same clause text on nested elements (the generated save/restore variables must still be distinct)
    out.append(('nested-identical-define', doc(P('0'), {'tag': 'x', 'define': [['local', n, py('2')]], 'children': [
        P('1'), {'tag': 'y', 'define': [['local', n, py('2')]], 'children': [P('2')]}, P('3')]}, P('4')),
        [[n, 'maybe3', 0]]))
    out.append(('nested-identical-repeat', doc(P('0'), {'tag': 'x', 'indent': 2, 'repeat': [n, py('seq')], 'children': [
        P('1'), {'tag': 'y', 'indent': 4, 'repeat': [n, py('seq')], 'children': [P('2')]}, P('3')]}, P('4')),
        [[n, 'maybe3', 0], ['seq', 'lenN', 1]]))
    out.append(('nested-identical-tuple-repeat', doc(P('0'), {'tag': 'x', 'indent': 2, 'repeat': [[n, 'zz'], py('pairs')], 'children': [
        P('1'), {'tag': 'y', 'indent': 4, 'repeat': [[n, 'zz'], py('pairs')], 'children': [P('2')]}, P('3')]}, P('4')),
        [[n, 'maybe3', 0], ['pairs', 'iter:pairs', 1]]))
    # a lambda parameter is local to the lambda: a template variable of that name stays visible afterwards
    out.append(('lambda-parameter', doc(P('0'), {'tag': 'x', 'define': [['local', 'fn', py('lambda %s: 1' % n)]],
                                                 'children': [{'interp': py('fn(0)')}, P('1')]}, P('2')),
                [[n, 'maybe3', 0]]))
    # ... and so is the parameter of a function defined in a code block
    out.append(('code-block-parameter', doc(P('0'), {'code': 'def fn_(%s, k=2): return k + 1' % n, 'defines': ['fn_']},
                                            {'interp': py('fn_(0)')}, P('1')), [[n, 'maybe3', 0]]))
    out.append(('repeat', doc(P('0'), {'tag': 'x', 'indent': 2, 'repeat': [n, py('seq')], 'children': [P('1')]},
                              P('2')),
                [[n, 'maybe3', 0], ['seq', 'lenN', 1]]))
    out.append(('global', doc(P('0'), {'tag': 'x', 'children': [
        {'tag': 'y', 'define': [['global', n, py('2')]], 'children': [P('1')]}, P('2')]}, P('3')),
        [[n, 'maybe3', 0]]))
    out.append(('local-then-global', doc(P('0'), {'tag': 'x', 'define': [['local', n, py('2')]], 'children': [
        P('1'), {'tag': 'y', 'define': [['global', n, py('12')]], 'children': [P('2')]}, P('3')]}, P('4')),
        [[n, 'maybe3', 0]]))
    out.append(('define-list', doc(P('0'), {'tag': 'x', 'define': [['local', n, py('2')],
                                                                    ['local', m, py('%s + 1' % n)]],
                                            'children': [P('1'), probe(m, 'm')]}, P('2'), probe(m, 'm2')),
                [[n, 'maybe3', 0], [m, 'maybe3', 2]]))
    out.append(('repeat-in-define', doc({'tag': 'x', 'define': [['local', n, py('2')]], 'children': [
        {'tag': 'y', 'indent': 4, 'repeat': [n, py('seq')], 'children': [
            {'tag': 'z', 'define': [['local', n, py('9')]], 'children': [P('a')]}, P('b')]}, P('c')]}, P('d')),
        [[n, 'maybe3', 0], ['seq', 'lenN', 1]]))
    out.append(('siblings', doc({'tag': 'x', 'define': [['local', n, py('2')]], 'children': [P('1')]},
                                {'tag': 'x', 'children': [P('2')]},
                                {'tag': 'x', 'condition': py('cv'), 'define': [['local', n, py('7')]],
                                 'children': [P('3')]}, P('4')),
                [[n, 'maybe3', 0], ['cv', 'bool', 0]]))
    out.append(('content-uses-local', doc({'tag': 'x', 'define': [['local', n, py('2')]],
                                           'content': ['text', py('show(%s)' % n)], 'children': ['k']}, P('1')),
                [[n, 'maybe3', 0]]))
    # a failure handled by tal:on-error ends the scope of everything the failed content had bound
    L = lambda k: {'interp': py('L(%d)' % k)}   # noqa: E731
    fb = ['text', py("'E'")]
    out.append(('guarded-define', doc(P('0'), {'tag': 'x', 'onerror': fb, 'children': [
        {'tag': 'y', 'define': [['local', n, py('2')]], 'children': [P('1'), L(0)]}, 'tail']}, P('2')),
        [[n, 'maybe3', 1], [0, 'out3', 0]]))
    out.append(('guarded-repeat', doc(P('0'), {'tag': 'x', 'onerror': fb, 'children': [
        {'tag': 'y', 'indent': 4, 'repeat': [n, py('seq')], 'children': [P('1'), L(0)]}, 'tail']}, P('2')),
        [[n, 'maybe3', 1], ['seq', 'lenN', 2], [0, 'out3', 0]]))
    out.append(('guarded-nested-fallback-fails', doc(P('0'), {'tag': 'x', 'onerror': fb, 'children': [
        {'tag': 'y', 'onerror': ['text', py('L(1)')], 'define': [['local', n, py('2')]], 'children': [L(0)]}, 'tail']}, P('2')),
        [[n, 'maybe3', 2], [0, 'out3', 0], [1, 'out3', 1]]))
    return out


def macro_scoping_jobs():
    """globals persist also after a macro; the macro's locals do not; the caller's locals are visible inside
    (dynamic scope) -- decided metamorphically: template with METAL vs its hand-inlined equivalent (C09's harness)"""
    import copy
    from checks.C09 import I, P, el, use
    from vlib import metal_inline as mi
    out = []

    def add(label, tree, vars_):
        macros = mi.collect_macros(tree, {})
        inlined = mi.inline(copy.deepcopy(tree), macros)
        assert len(inlined) == 1
        out.append({'label': 'macro:' + label, 'lib': None, 'caller': tree, 'inlined': inlined[0], 'vars': vars_})
    hide = lambda *m: el('hide', *m, condition=py('False'))     # noqa: E731
    bump = el('p', I('g'), define_macro='bump', define=[['global', 'g', py('g + 1')]])
    add('global-redefined-once', el('div', hide(bump), el('r', define=[['global', 'g', py('gv')]]), use('bump'), '[', I('g'), ']'),
        [['gv', 'int', 0]])
    add('global-redefined-thrice', el('div', hide(bump), el('r', define=[['global', 'g', py('gv')]]), use('bump'), use('bump'),
                                      use('bump'), '[', I('g'), ']'), [['gv', 'int', 0]])
    add('global-initially-bound', el('div', hide(bump), use('bump'), '[', I('g'), ']', use('bump'), '[', I('g'), ']'),
        [['g', 'int', 0]])
    newg = el('p', 'n', define_macro='newg', define=[['global', 'h', py('gv + 5')], ['local', 'loc', py('gv')]])
    add('new-global-and-local', el('div', hide(newg), P('h'), P('loc'), use('newg'), P('h'), P('loc')), [['gv', 'int', 0]])
    reader = el('p', I("cl | 'nocl'"), el('b', I('cl'), define=[['local', 'cl', py('cl + 10')]]), I('cl'), define_macro='reader')
    add('caller-local-visible-and-restored', el('div', hide(reader), el('x', use('reader'), '/', I('cl'),
                                                                       define=[['local', 'cl', py('cv2')]]), P('cl')),
        [['cv2', 'int', 0]])
    inner = el('i', I('g'), define_macro='inner', define=[['global', 'g', py('g * 2')]])
    outer = el('p', use('inner'), '<', I('g'), '>', define_macro='outer', define=[['global', 'g', py('g + 1')]])
    add('nested-macros-redefine', el('div', hide(inner, outer), el('r', define=[['global', 'g', py('gv')]]), use('outer'), '[',
                                     I('g'), ']', use('inner'), '[', I('g'), ']'), [['gv', 'int', 0]])
    shadow = el('p', I('len'), define_macro='shadow', define=[['global', 'len', py('gv')]])
    add('global-shadows-builtin', el('div', hide(shadow), I("len('ab')"), use('shadow'), '[', I('len'), ']'), [['gv', 'int', 0]])
    rep = el('p', el('li', I('it'), el('k', define=[['global', 'last', py('it')]]), indent=2, repeat=['it', py('seq')]),
             define_macro='rep')
    add('global-from-repeat-in-macro', el('div', hide(rep), el('r', define=[['global', 'last', py('-1')]]), use('rep'), '[',
                                          I('last'), ']', P('it')), [['seq', 'len', 0]])
    # a local variable that hides a global stays in force across a macro that leaves that global alone
    plain = el('p', 'm', define_macro='plain')
    add('local-hides-global-across-macro', el('div', hide(plain), el('r', define=[['global', 'x', py('gv')]]),
                                              el('q', P('x'), use('plain'), P('x'), define=[['local', 'x', py('gv + 5')]]), P('x')),
        [['gv', 'int', 0]])
    other = el('p', 'm', define_macro='other', define=[['global', 'y', py('gv + 1')]])
    add('local-hides-global-macro-sets-another', el('div', hide(other), el('r', define=[['global', 'x', py('gv')]]),
                                                    el('q', P('x'), use('other'), P('x'), P('y'), define=[['local', 'x', py('gv + 5')]]),
                                                    P('x'), P('y')),
        [['gv', 'int', 0]])
    # a global defined inside a slot filler is in force in the rest of the macro and in the caller afterwards
    slotted = el('p', '(', el('i', 'D', define_slot='s'), ')', P('g'), define_macro='slotted')
    add('global-defined-in-filler', el('div', hide(slotted), use('slotted', el('b', 'F', fill_slot='s', define=[['global', 'g', py('gv')]])),
                                       P('g')), [['gv', 'int', 0]])
    add('global-redefined-in-filler', el('div', hide(slotted), el('r', define=[['global', 'g', py('gv')]]),
                                         use('slotted', el('b', 'F', fill_slot='s', define=[['global', 'g', py('gv + 3')]])),
                                         P('g')), [['gv', 'int', 0]])
    # a global definition of several names at once, seen again after a macro
    add('global-tuple-then-macro', el('div', hide(plain), el('r', define=[['global', ['a', 'b'], py('(gv, gv + 1)')]]),
                                      P('a'), P('b'), use('plain'), P('a'), P('b')), [['gv', 'int', 0]])
    pair = el('p', 'm', define_macro='pair', define=[['global', ['a', 'b'], py('(gv, gv + 1)')]])
    add('macro-defines-several-globals', el('div', hide(pair), use('pair'), P('a'), P('b')), [['gv', 'int', 0]])
    return out


def plan(tier, seed):
    rnd = random.Random(seed)
    quick = tier == 'quick'
    jobs = []
    names = POOL if not quick else POOL[:6]
    for n in names:
        for label, prog, vars_ in templates(n):
            if quick and n not in ('a', 'len') and label not in ('nested-local', 'repeat', 'global', 'nested-identical-define', 'nested-identical-tuple-repeat', 'lambda-parameter', 'guarded-define', 'code-block-parameter'):
                continue
            jobs.append({'prog': prog, 'vars': vars_, 'label': '%s:%s' % (n, label)})
    for label, prog, vars_ in templates('error'):
        if label.startswith('guarded-'):
            jobs.append({'prog': prog, 'vars': vars_, 'label': 'error:%s' % label})
    mut = {'prog': templates('a')[0][1], 'vars': templates('a')[0][2]}
    famG = dict(name='scoping_templates', module=HG, fn='H', jobs=jobs, timeout=300 if quick else 900,
                batch=3, vacuity=1, program_key='prog',
                mutants=[{'name': 'define_not_reversed',
                          'cfg': {'prog': doc({'tag': 'x', 'define': [['local', 'a', py('1')], ['local', 'a', py('2')]],
                                               'children': [probe('a', 'i')]}, probe('a', 'o')),
                                  'vars': [['a', 'maybe3', 0]]}},
                         {'name': 'backup_none_sentinel', 'cfg': mut}])
    famS = dict(name='scope_operations', module=HK, fn='scope_ops',
                jobs=[{'nops': 1}, {'nops': 2}] if quick else [{'nops': 2}, {'nops': 3}],
                timeout=600 if quick else 3000, vacuity=1,
                mutants=[{'name': 'copy_root_is_parent', 'cfg': {'nops': 1}},
                         {'name': 'contains_ignores_root', 'cfg': {'nops': 1}}])
    mj = macro_scoping_jobs()
    famM = dict(name='macro_scoping', module='checks.hC09', fn='H', jobs=mj, timeout=300, batch=2, vacuity=1,
                program_key='label', mutants=[{'name': 'no_global_merge', 'cfg': mj[3]}])
    shapes = [[0], [0, 1], ['_', 0], ['__', 0], ['_', 0, 1], ['econtex', 0], ['rcontex', 0], [0, 'context'],
              ['econtext', 0], ['__', 0, 1], [0, '_', 1]]
    if not quick:
        shapes += [[0, 1, 2], ['_', 0, '_', 1], ['e', 0, 'ontext'], ['r', 0, 'ontext']]
    famR = dict(name='reserved_names', module=HK, fn='reserved', jobs=[{'shape': s} for s in shapes],
                timeout=300, vacuity=1, mutants=[])
    return dict(
        level='translation_validation',
        functions=['chameleon.compiler:Compiler.visit_Define', 'chameleon.compiler:Compiler.visit_Repeat',
                   'chameleon.compiler:Compiler.visit_Assignment', 'chameleon.compiler:Compiler._enter_assignment',
                   'chameleon.compiler:Compiler._leave_assignment', 'chameleon.compiler:NameTransform.__call__',
                   'chameleon.utils:Scope.get', 'chameleon.utils:Scope.__getitem__', 'chameleon.utils:Scope.__contains__',
                   'chameleon.utils:Scope.__iter__', 'chameleon.utils:Scope.copy', 'chameleon.utils:Scope.set_global',
                   'chameleon.utils:Scope.get_name', 'chameleon.compiler:Compiler.visit_UseInternalMacro',
                   'chameleon.compiler:Compiler.visit_UseExternalMacro'],
        bounds=('%d scoping templates (9 nesting patterns of define local/global, repeat, condition, incl. textually identical clauses on nested elements; depth <= 3; bindings made inside content whose failure a tal:on-error handles, also for the name error itself) over '
                'the name pool %s with the name initially unbound / None / 5, define values int, repeat length 0..3 or '
                'None; Scope: all sequences of %s operations (local set / global set / delete / copy) on a root, its copy '
                'and the copy of the copy, keys from a 2-name pool, values unbounded ints; reserved-name predicate on %d '
                'name shapes with up to %d symbolic code points; 14 macro programs (a global defined inside a slot filler, a local hiding a global across a macro, a global definition of several names, a global re-defined by a macro once / several times / in nested macros, new globals and locals of a macro, caller locals seen inside and restored, a global shadowing a builtin, a global set inside a repeat of a macro) compared with their hand-inlined equivalents for all bindings. Outside: deeper nestings, names documented as reserved but accepted (known finding).'
                % (len(jobs), names, '<= 2' if quick else '<= 3', len(shapes), 2 if quick else 3)),
        assumptions=['reference scope semantics in vlib/refsem.py (stack of local frames, globals, initial bindings)',
                     'probe ${show(n) | "U"} observes visibility (NameError -> U)',
                     'reserved = econtext, rcontext, names starting with two underscores (what the compiler rejects; '
                     'docs additionally list translate/decode/convert, which the test-suite requires to be accepted)'],
        families=[famG, famM, famS, famR],
    )
