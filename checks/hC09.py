"""C09 harness (metamorphic): a template using METAL and its hand-inlined METAL-free equivalent must
render identically for all bindings; both sides are the real implementation."""
from chameleon import PageTemplate

from vlib import tprog

CFG = {}
STATE = {}
N = [1, 1, 1, 1]


def pick(table, idx):
    for j in range(len(table)):
        if idx == j:
            return table[j]
    raise IndexError(idx)


def _mutate(name):
    from chameleon import compiler as cc
    import inspect
    import textwrap
    if name == 'macros_memoised':
        # the wrapper of a macro is remembered per template and name, and survives a re-cook
        from chameleon.zpt import template as zt
        orig = zt.Macros.__getitem__
        memo = {}

        def __getitem__(self, n):
            key = (id(self.template), n)
            if key not in memo:
                memo[key] = orig(self, n)
            return memo[key]
        zt.Macros.__getitem__ = __getitem__
        return
    src_fn = cc.Compiler.visit_UseExternalMacro
    code = textwrap.dedent(inspect.getsource(src_fn))
    if name == 'filler_uses_macro_target':
        src_fn = cc.Compiler.visit_DefineSlot
        code = textwrap.dedent(inspect.getsource(src_fn))
        new = code.replace('"SLOT(__stream, econtext.copy(), rcontext)"', '"SLOT(__stream, econtext.copy(), rcontext, target_language=target_language)"')
        if new == code:
            new = code.replace('econtext.copy(), rcontext)', 'econtext.copy(), rcontext, target_language=target_language)')
        assert new != code
        ns = dict(src_fn.__globals__)
        exec(new, ns)
        cc.Compiler.visit_DefineSlot = ns['visit_DefineSlot']
        return
    if name == 'no_global_merge':
        # global definitions made by a macro are not carried over to its caller
        cc.Compiler._call_macro = lambda self, call: call
        return
    elif name == 'fill_left_behind':
        import re
        new = re.sub(r'\)\) \+\n\s+cleanup\n', '))\n', code)
    elif name == 'extend_drops_appendleft':
        new = code.replace('orelse=append,', 'orelse=[],')
    elif name == 'slot_default_when_filled':
        src_fn = cc.Compiler.visit_DefineSlot
        code = textwrap.dedent(inspect.getsource(src_fn))
        new = code.replace('ops=[ast.Is()]', 'ops=[ast.IsNot()]')
        ns = dict(src_fn.__globals__)
        exec(new, ns)
        cc.Compiler.visit_DefineSlot = ns['visit_DefineSlot']
        return
    else:
        raise KeyError(name)
    assert new != code
    ns = dict(src_fn.__globals__)
    exec(new, ns)
    cc.Compiler.visit_UseExternalMacro = ns['visit_UseExternalMacro']


def prepare(cfg):
    if cfg.get('mutant'):
        _mutate(cfg['mutant'])
    if 'caller' not in cfg:
        return
    kw = {}
    if cfg.get('i18n'):
        kw['translate'] = revealing_translate
    STATE['lib'] = PageTemplate(tprog.serialise(cfg['lib']), **kw) if cfg.get('lib') else None
    STATE['a_text'] = tprog.serialise(cfg['caller'])
    STATE['b_text'] = tprog.serialise(cfg['inlined'])
    STATE['a'] = PageTemplate(STATE['a_text'], **kw)
    STATE['b'] = PageTemplate(STATE['b_text'], **kw)
    for k in range(4):
        N[k] = 1
    for name, kind, slot in cfg.get('vars', []):
        if kind == 'len':
            N[slot] = 4
        elif kind == 'int':
            N[slot] = 4
        elif kind == 'fail':
            N[slot] = 3


def revealing_translate(msgid, domain=None, mapping=None, context=None, target_language=None, default=None):
    """translation function whose return value exposes every argument it was given (so equal output means
    equal calls, argument for argument)"""
    text = default if default is not None else msgid
    if mapping:
        for k in sorted(mapping):
            text = text.replace('${%s}' % k, '{%s}' % mapping[k])
    return '[%s|%s|%s|%s:%s]' % (domain, context, target_language, msgid if isinstance(msgid, str) else '?', text)


def bind(ints, bools):
    b = {}
    if CFG.get('target_language') is not None:
        b['target_language'] = CFG['target_language']
    for name, kind, slot in CFG.get('vars', []):
        if kind == 'bool':
            b[name] = bools[slot]
        elif kind == 'int':
            b[name] = ints[slot]
        elif kind == 'len':
            b[name] = list(range(pick([0, 1, 2, 3], ints[slot])))
        elif kind == 'msgobj':
            b[name] = MessageObject()
        elif kind == 'fail':
            # evaluation point L(name): 0 succeeds, 1 raises ValueError, 2 raises a custom exception
            b.setdefault('__outs__', {})[name] = ints[slot]
    if STATE.get('lib') is not None:
        b['lib'] = STATE['lib']
    outs = b.pop('__outs__', None)
    if outs is not None:
        def L(k):
            o = outs.get(k, 0)
            if o == 1:
                raise ValueError('boom%d' % k)
            if o == 2:
                raise CustomFailure('boom%d' % k)
            return 'v%d' % k
        b['L'] = L
    return b


class CustomFailure(Exception):
    pass


class MessageObject:
    """neither string nor number nor __html__: offered to the translation function when inserted"""

    def __str__(self):
        return 'msg'


def run(tpl, b):
    try:
        return ('ok', tpl.render(**b))
    except Exception as exc:
        for c in type(exc).__mro__:
            if c.__module__ == 'builtins':
                return ('exc', c.__name__)
        return ('exc', type(exc).__name__)


def H(i0: int, i1: int, i2: int, i3: int, b0: bool, b1: bool, b2: bool, b3: bool) -> bool:
    """
    pre: 0 <= i0 < N[0] and 0 <= i1 < N[1] and 0 <= i2 < N[2] and 0 <= i3 < N[3]
    post: _
    """
    ra = run(STATE['a'], bind((i0, i1, i2, i3), (b0, b1, b2, b3)))
    rb = run(STATE['b'], bind((i0, i1, i2, i3), (b0, b1, b2, b3)))
    ok = ra == rb and (ra[0] == 'ok' or bool(CFG.get('allow_exc')))
    return (not ok) if CFG.get('negate') else ok


def explain(cfg, *args):
    if 'caller' not in cfg:
        return {'args': list(args)}
    b = bind(args[:4], args[4:])
    return {'with_metal': STATE['a_text'], 'inlined': STATE['b_text'],
            'bindings': {k: repr(v)[:60] for k, v in b.items()},
            'rendered_with_metal': run(STATE['a'], b), 'rendered_inlined': run(STATE['b'], b)}


# ---- a macro library that changes: every use renders what the macro's *current* defining element renders --------
LIB_VERSIONS = [
    '<html><p metal:define-macro="m">one <i metal:define-slot="s">d1</i></p><q metal:define-macro="n">n1</q></html>',
    '<html><q metal:define-macro="n">n2</q><div metal:define-macro="m" class="two"><b metal:define-slot="s">d2</b> two</div></html>',
    '<html><p metal:define-macro="m">three</p></html>',
]
CALLERS = [
    '<x><u metal:use-macro="lib.macros[\'m\']"><s metal:fill-slot="s">F</s></u></x>',
    '<x><u metal:use-macro="lib[\'m\']"/></x>',
    '<x><u metal:use-macro="lib"/></x>',
]


def rewritten(w0: bool, t0: int, w1: bool, t1: int, w2: bool, t2: int) -> bool:
    """
    pre: 0 <= t0 < 5 and 0 <= t1 < 5 and 0 <= t2 < 5
    pre: CFG.get('n', 3) >= 3 or (t2 == 0 and not w2)
    post: _
    """
    # history of n <= 3 steps (library kind and form of use fixed per job); each step optionally installs the next version of the library (write() for a string
    # template, a modified file for an auto-reloading file template), then touches it in one of five ways, then
    # the caller is rendered and compared with a caller rendered against a fresh template of that version
    import os
    import shutil
    import tempfile
    from chameleon import PageTemplateFile
    from vlib.notrace import NoTracing
    file_based = bool(CFG.get('file'))
    steps = [(True if w else False, [k for k in range(5) if t == k][0]) for w, t in ((w0, t0), (w1, t1), (w2, t2))]
    steps = steps[:CFG.get('n', 3)]
    ci = CFG.get('use', 0)
    ok = True
    with NoTracing():
        d = tempfile.mkdtemp(prefix='verif-c09-')
        try:
            path = os.path.join(d, 'lib.pt')
            version = 0
            stamp = 1000000000

            def store(v):
                with open(path, 'w') as f:
                    f.write(LIB_VERSIONS[v])
                os.utime(path, (stamp + v * 10, stamp + v * 10))
            if file_based:
                store(0)
                lib = PageTemplateFile(path, auto_reload=True)
            else:
                lib = PageTemplate(LIB_VERSIONS[0])
            caller = PageTemplate(CALLERS[ci])
            caller.render(lib=lib)
            lib.macros['m']
            for write, touch in steps:
                if write and version < 2:
                    version += 1
                    if file_based:
                        store(version)
                    else:
                        lib.write(LIB_VERSIONS[version])
                if touch == 0:
                    lib.macros['m']
                elif touch == 1:
                    lib.render()
                elif touch == 2:
                    lib.macros.names
                elif touch == 3:
                    PageTemplate(CALLERS[2]).render(lib=lib)
                got = caller.render(lib=lib)
                want = caller.render(lib=PageTemplate(LIB_VERSIONS[version]))
                if got != want:
                    ok = False
        except Exception:
            ok = False
        finally:
            shutil.rmtree(d, True)
    return (not ok) if CFG.get('negate') else ok
