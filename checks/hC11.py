"""C11 kernels: position arithmetic of Token operations and of the statement-argument parsers on
symbolic text; every produced token must locate itself: source[pos:pos+len(t)] == t."""
from chameleon import i18n
from chameleon import parser as ps
from chameleon import tal
from chameleon.exc import LanguageError
from chameleon.exc import TemplateError
from chameleon.tokenize import Token

CFG = {}
PRE = 'xy<p a="'
POST = '">\nz'


def build(shape, cs):
    s = ''
    for piece in shape:
        s = s + (chr(cs[piece]) if isinstance(piece, int) else piece)
    return s


def _mutate(name):
    if name == 'strip_chars_pos':
        def strip(self, chars=None):
            s = str.strip(self, chars)
            lead = len(self) - len(str.lstrip(self))      # forgets ``chars``
            return Token(s, self.pos + lead, self.source, self.filename)
        Token.strip = strip
    elif name == 'lstrip_pos':
        def lstrip(self, chars=None):
            s = str.lstrip(self, chars)
            return Token(s, self.pos, self.source, self.filename)
        Token.lstrip = lstrip
    elif name == 'groups_span_off':
        def groups(m, token):
            result = []
            for i, group in enumerate(m.groups()):
                if group is not None:
                    j, k = m.span(i + 1)
                    group = token[j:k]
                    group.pos = group.pos + (1 if i == 2 else 0)
                result.append(group)
            return tuple(result)
        ps.groups = groups
        tal.groups = groups
    else:
        raise KeyError(name)
    try:
        from vlib import chsym
        chsym.graft()
    except ImportError:
        pass


def prepare(cfg):
    if cfg.get('mutant'):
        _mutate(cfg['mutant'])


def valid(t):
    if t is None:
        return True
    if not hasattr(t, 'pos'):
        return False
    return t.source[t.pos:t.pos + len(t)] == t


def token_for(text):
    source = PRE + text + POST
    return Token(source[len(PRE):len(PRE) + len(text)], len(PRE), source)


def _res(ok):
    return (not ok) if CFG.get('negate') else ok


def known(text, cls):
    ex = CFG.get('exclude') or ()
    return cls in ex


# ---- (1) Token operations preserve validity -------------------------------------------------------
def tok_op(c0: int, c1: int, c2: int, c3: int, i: int, j: int, ni: bool, nj: bool) -> bool:
    """
    pre: 0 <= c0 < 0x110000 and 0 <= c1 < 0x110000 and 0 <= c2 < 0x110000 and 0 <= c3 < 0x110000
    pre: -6 <= i <= 6 and -6 <= j <= 6
    post: _
    """
    text = build(CFG['shape'], (c0, c1, c2, c3))
    t = token_for(text)
    op = CFG['op']
    if op == 'slice':
        a = None if ni else i
        b = None if nj else j
        r = [t[a:b]]
        if len(r[0]) == 0:
            r = []            # an empty slice identifies nothing
    elif op == 'strip':
        r = [t.strip(), t.lstrip(), t.rstrip()]
    elif op == 'strip_chars':
        ch = CFG['chars']
        r = [t.strip(ch), t.lstrip(ch), t.rstrip(ch)]
    elif op == 'split_sep':
        r = t.split(CFG['sep'])
    elif op == 'split_ws':
        r = t.split()
    elif op == 'split_max':
        r = t.split(CFG['sep'], 1)
    else:
        raise KeyError(op)
    ok = True
    for x in r:
        if not valid(x):
            ok = False
    return _res(ok)


# ---- (2) producers: every returned name/expression token locates itself -------------------------------
def producer(c0: int, c1: int, c2: int, c3: int, i: int, j: int, ni: bool, nj: bool) -> bool:
    """
    pre: 0 <= c0 < 0x110000 and 0 <= c1 < 0x110000 and 0 <= c2 < 0x110000 and 0 <= c3 < 0x110000
    pre: i == 0 and j == 0
    post: _
    """
    if CFG['fn'] == 'i18n_attributes':
        # attribute names become dict keys (hashing realises): the symbolic characters range over the
        # separator alphabet only
        for c in (c0, c1, c2, c3):
            if c not in (32, 59, 44, 10, 9, 0):
                return _res(True)
    text = build(CFG['shape'], (c0, c1, c2, c3))
    ex = CFG.get('exclude') or ()
    if 'double_semicolon_or_entity' in ex:
        # known finding: ';;' un-doubling and the ';' inserted after an entity change the text of the
        # clause, so later parts are shifted; NUL is split_parts' internal placeholder
        if ';;' in text or '&' in text or '\0' in text:
            return _res(True)
    t = token_for(text)
    which = CFG['fn']
    toks = []
    try:
        if which == 'defines':
            for context, names, expr in tal.parse_defines(t):
                toks.append(expr)
                for n in names:
                    toks.append(n)
        elif which == 'attributes':
            for name, expr in tal.parse_attributes(t):
                toks.append(name)
                toks.append(expr)
        elif which == 'substitution':
            key, expr = tal.parse_substitution(t)
            toks.append(expr)
        elif which == 'split_parts':
            toks = list(tal.split_parts(t))
        elif which == 'i18n_attributes':
            d = i18n.parse_attributes(t)
            toks = []      # names become dict keys; only the error tokens carry positions
        else:
            raise KeyError(which)
    except TemplateError as exc:
        toks = [exc.token]
    ok = True
    for x in toks:
        if x is not None and len(x) > 0 and not valid(x):
            ok = False
    return _res(ok)


# ---- (3) line / column ------------------------------------------------------------------------------
def location(c0: int, c1: int, c2: int, c3: int, i: int, j: int, ni: bool, nj: bool) -> bool:
    """
    pre: 0 <= c0 < 0x110000 and 0 <= c1 < 0x110000 and 0 <= c2 < 0x110000 and 0 <= c3 < 0x110000
    pre: 0 <= i <= 6 and j == 0
    post: _
    """
    source = build(CFG['shape'], (c0, c1, c2, c3))
    if i > len(source):
        return _res(True)
    t = Token(source[i:i + 1], i, source)
    line, col = t.location
    # closed form: line = 1 + number of '\n' before pos; column = characters since the last '\n'
    wl = 1
    wc = 0
    for k in range(i):
        if source[k] == '\n':
            wl += 1
            wc = 0
        else:
            wc += 1
    return _res(line == wl and col == wc)


def explain(cfg, *args):
    text = build(cfg['shape'], args[:4])
    return {'text': text, 'cfg': {k: v for k, v in cfg.items() if k != 'exclude'}}


# ---- (4) front end: a raised TemplateError carries a token that locates itself in the document -----
def frontend_error(c0: int, c1: int, c2: int, c3: int, i: int, j: int, ni: bool, nj: bool) -> bool:
    """
    pre: 0 <= c0 < 0x110000 and 0 <= c1 < 0x110000 and 0 <= c2 < 0x110000 and 0 <= c3 < 0x110000
    pre: i == 0 and j == 0
    post: _
    """
    from checks import hC03
    clause = build(CFG['shape'], (c0, c1, c2, c3))
    ex = CFG.get('exclude') or ()
    if '"' in clause or '<' in clause:
        return _res(True)                     # would end the attribute value / not a well-formed tag
    if 'double_semicolon_or_entity' in ex and (';;' in clause or '&' in clause or '\0' in clause):
        return _res(True)
    doc = CFG['pre'] + clause + CFG['post']
    try:
        hC03._Program(doc, 'xml', '<string>', escape=True, boolean_attributes=frozenset())
    except TemplateError as exc:
        t = exc.token
        ok = hasattr(t, "pos") and t.source is not None and \
            t.source[t.pos:t.pos + len(t)] == t and t.source == doc
        return _res(ok)
    except KeyError as exc:
        # an undefined namespace prefix is rejected with a bare KeyError: a well-formedness error
        # outside the catalogue of language errors the property lists
        return _res('Undefined namespace prefix' in str(exc))
    except (TypeError, AttributeError):
        return _res(hC03.undissectable(doc))
    return _res(True)


def accept(c0: int, c1: int, c2: int, c3: int, i: int, j: int, ni: bool, nj: bool) -> bool:
    """
    pre: 0 <= c0 < 0x110000 and 0 <= c1 < 0x110000 and 0 <= c2 < 0x110000 and 0 <= c3 < 0x110000
    pre: i == 0 and j == 0
    post: _
    """
    from checks import hC03
    # symbolic characters stand in text content / attribute values of a well-formed statement-free
    # document: any character except markup delimiters is legal there -> must never be rejected
    for c in (c0, c1, c2, c3):
        if c in (60, 62, 38, 34, 39, 36, 0):       # < > & " ' $ NUL
            return _res(True)
    doc = build(CFG['shape'], (c0, c1, c2, c3))
    try:
        out = hC03.emit_text(doc)
    except Exception:
        return _res(False)
    return _res(out == doc)
