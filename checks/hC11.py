"""C11 kernels: position arithmetic of Token operations and of the statement-argument parsers on
symbolic text; every produced token must locate itself: source[pos:pos+len(t)] == t."""
from chameleon import i18n
from chameleon import parser as ps
from chameleon import tal
from chameleon.exc import LanguageError
from chameleon.exc import TemplateError
from chameleon.tokenize import Token

CFG = {}
PRE = 'xy<p a="'
POST = '">\nz'


def build(shape, cs):
    s = ''
    for piece in shape:
        s = s + (chr(cs[piece]) if isinstance(piece, int) else piece)
    return s


def _mutate(name):
    if name == 'strip_chars_pos':
        def strip(self, chars=None):
            s = str.strip(self, chars)
            lead = len(self) - len(str.lstrip(self))      # forgets ``chars``
            return Token(s, self.pos + lead, self.source, self.filename)
        Token.strip = strip
    elif name == 'lstrip_pos':
        def lstrip(self, chars=None):
            s = str.lstrip(self, chars)
            return Token(s, self.pos, self.source, self.filename)
        Token.lstrip = lstrip
    elif name == 'memo_parse_defines':
        import functools
        tal.parse_defines = functools.lru_cache(maxsize=None)(tal.parse_defines)
        from chameleon.zpt import program as zp
        if hasattr(zp, 'parse_defines'):
            zp.parse_defines = tal.parse_defines
    elif name == 'expression_error_token_flattened':
        # pre-fix behaviour: the error names the expression after its line breaks were turned into blanks
        import inspect
        import textwrap
        from chameleon import tales
        src_fn = tales.PythonExpr.translate
        code = textwrap.dedent(inspect.getsource(src_fn)).replace('raise ExpressionError(exc.msg, source)',
                                                                  'raise ExpressionError(exc.msg, string)')
        assert code != textwrap.dedent(inspect.getsource(src_fn))
        ns = dict(src_fn.__globals__)
        exec(code, ns)
        tales.PythonExpr.translate = ns['translate']
    elif name == 'memo_expression_compiler':
        import functools
        from chameleon import tales
        real = tales.ExpressionParser.__call__
        memo = {}

        def __call__(self, expression):
            key = (id(self.factories), str(expression))
            if key not in memo:
                memo[key] = real(self, expression)
            return memo[key]
        tales.ExpressionParser.__call__ = __call__
    elif name == 'split_regex_lookaround':
        import re as _re

        def split_parts(arg):
            parts = _re.split(r'(?<!;);(?!;)', str(arg))
            parts = [p.replace(';;', ';') for p in parts]
            if len(parts) > 1 and not parts[-1].strip():
                del parts[-1]
            return parts
        tal.split_parts = split_parts
    elif name == 'groups_span_off':
        def groups(m, token):
            result = []
            for i, group in enumerate(m.groups()):
                if group is not None:
                    j, k = m.span(i + 1)
                    group = token[j:k]
                    group.pos = group.pos + (1 if i == 2 else 0)
                result.append(group)
            return tuple(result)
        ps.groups = groups
        tal.groups = groups
    else:
        raise KeyError(name)
    try:
        from vlib import chsym
        chsym.graft()
    except ImportError:
        pass


def prepare(cfg):
    if cfg.get('mutant'):
        _mutate(cfg['mutant'])
    if cfg.get('clauses'):
        # warm the compiler natively (it reads its own source with inspect) -- and give any cross-compile
        # state a first occurrence of every clause
        for name in cfg['clauses']:
            _compile_error(dict(ERR_CLAUSES)[name], ERR_OPTIONS.get(name))


def valid(t):
    if t is None:
        return True
    if not hasattr(t, 'pos'):
        return False
    return t.source[t.pos:t.pos + len(t)] == t


def token_for(text):
    source = PRE + text + POST
    return Token(source[len(PRE):len(PRE) + len(text)], len(PRE), source)


def _res(ok):
    return (not ok) if CFG.get('negate') else ok


def known(text, cls):
    ex = CFG.get('exclude') or ()
    return cls in ex


# ---- (1) Token operations preserve validity -------------------------------------------------------
def tok_op(c0: int, c1: int, c2: int, c3: int, i: int, j: int, ni: bool, nj: bool) -> bool:
    """
    pre: 0 <= c0 < 0x110000 and 0 <= c1 < 0x110000 and 0 <= c2 < 0x110000 and 0 <= c3 < 0x110000
    pre: -6 <= i <= 6 and -6 <= j <= 6
    post: _
    """
    text = build(CFG['shape'], (c0, c1, c2, c3))
    t = token_for(text)
    op = CFG['op']
    if op == 'slice':
        a = None if ni else i
        b = None if nj else j
        r = [t[a:b]]
        if len(r[0]) == 0:
            r = []            # an empty slice identifies nothing
    elif op == 'strip':
        r = [t.strip(), t.lstrip(), t.rstrip()]
    elif op == 'strip_chars':
        ch = CFG['chars']
        r = [t.strip(ch), t.lstrip(ch), t.rstrip(ch)]
    elif op == 'split_sep':
        r = t.split(CFG['sep'])
    elif op == 'split_ws':
        r = t.split()
    elif op == 'split_max':
        r = t.split(CFG['sep'], 1)
    else:
        raise KeyError(op)
    ok = True
    for x in r:
        if not valid(x):
            ok = False
    return _res(ok)


# ---- (2) producers: every returned name/expression token locates itself -------------------------------
def producer(c0: int, c1: int, c2: int, c3: int, i: int, j: int, ni: bool, nj: bool) -> bool:
    """
    pre: 0 <= c0 < 0x110000 and 0 <= c1 < 0x110000 and 0 <= c2 < 0x110000 and 0 <= c3 < 0x110000
    pre: i == 0 and j == 0
    post: _
    """
    if CFG['fn'] == 'i18n_attributes':
        # attribute names become dict keys (hashing realises): the symbolic characters range over the
        # separator alphabet only
        for c in (c0, c1, c2, c3):
            if c not in (32, 59, 44, 10, 9, 0):
                return _res(True)
    text = build(CFG['shape'], (c0, c1, c2, c3))
    ex = CFG.get('exclude') or ()
    if 'double_semicolon_or_entity' in ex:
        # known finding: ';;' un-doubling and the ';' inserted after an entity change the text of the
        # clause, so later parts are shifted; NUL is split_parts' internal placeholder
        if ';;' in text or '&' in text or '\0' in text:
            return _res(True)
    t = token_for(text)
    which = CFG['fn']
    toks = []
    try:
        if which == 'defines':
            for context, names, expr in tal.parse_defines(t):
                toks.append(expr)
                for n in names:
                    toks.append(n)
        elif which == 'attributes':
            for name, expr in tal.parse_attributes(t):
                toks.append(name)
                toks.append(expr)
        elif which == 'substitution':
            key, expr = tal.parse_substitution(t)
            toks.append(expr)
        elif which == 'split_parts':
            toks = list(tal.split_parts(t))
        elif which == 'i18n_attributes':
            d = i18n.parse_attributes(t)
            toks = []      # names become dict keys; only the error tokens carry positions
        else:
            raise KeyError(which)
    except TemplateError as exc:
        toks = [exc.token]
    ok = True
    for x in toks:
        if x is not None and len(x) > 0 and not valid(x):
            ok = False
    return _res(ok)


# ---- (3) line / column ------------------------------------------------------------------------------
def location(c0: int, c1: int, c2: int, c3: int, i: int, j: int, ni: bool, nj: bool) -> bool:
    """
    pre: 0 <= c0 < 0x110000 and 0 <= c1 < 0x110000 and 0 <= c2 < 0x110000 and 0 <= c3 < 0x110000
    pre: 0 <= i <= 6 and j == 0
    post: _
    """
    source = build(CFG['shape'], (c0, c1, c2, c3))
    if i > len(source):
        return _res(True)
    t = Token(source[i:i + 1], i, source)
    line, col = t.location
    # closed form: line = 1 + number of '\n' before pos; column = characters since the last '\n'
    wl = 1
    wc = 0
    for k in range(i):
        if source[k] == '\n':
            wl += 1
            wc = 0
        else:
            wc += 1
    return _res(line == wl and col == wc)


def explain(cfg, *args):
    text = build(cfg['shape'], args[:4])
    return {'text': text, 'cfg': {k: v for k, v in cfg.items() if k != 'exclude'}}


# ---- (4) front end: a raised TemplateError carries a token that locates itself in the document -----
def frontend_error(c0: int, c1: int, c2: int, c3: int, i: int, j: int, ni: bool, nj: bool) -> bool:
    """
    pre: 0 <= c0 < 0x110000 and 0 <= c1 < 0x110000 and 0 <= c2 < 0x110000 and 0 <= c3 < 0x110000
    pre: i == 0 and j == 0
    post: _
    """
    from checks import hC03
    clause = build(CFG['shape'], (c0, c1, c2, c3))
    ex = CFG.get('exclude') or ()
    if '"' in clause or '<' in clause:
        return _res(True)                     # would end the attribute value / not a well-formed tag
    if 'double_semicolon_or_entity' in ex and (';;' in clause or '&' in clause or '\0' in clause):
        return _res(True)
    doc = CFG['pre'] + clause + CFG['post']
    try:
        hC03._Program(doc, 'xml', '<string>', escape=True, boolean_attributes=frozenset())
    except TemplateError as exc:
        t = exc.token
        ok = hasattr(t, "pos") and t.source is not None and \
            t.source[t.pos:t.pos + len(t)] == t and t.source == doc
        return _res(ok)
    except KeyError as exc:
        # an undefined namespace prefix is rejected with a bare KeyError: a well-formedness error
        # outside the catalogue of language errors the property lists
        return _res('Undefined namespace prefix' in str(exc))
    except (TypeError, AttributeError):
        return _res(hC03.undissectable(doc))
    return _res(True)


def accept(c0: int, c1: int, c2: int, c3: int, i: int, j: int, ni: bool, nj: bool) -> bool:
    """
    pre: 0 <= c0 < 0x110000 and 0 <= c1 < 0x110000 and 0 <= c2 < 0x110000 and 0 <= c3 < 0x110000
    pre: i == 0 and j == 0
    post: _
    """
    from checks import hC03
    # symbolic characters stand in text content / attribute values of a well-formed statement-free
    # document: any character except markup delimiters is legal there -> must never be rejected
    for c in (c0, c1, c2, c3):
        if c in (60, 62, 38, 34, 39, 36, 0):       # < > & " ' $ NUL
            return _res(True)
    doc = build(CFG['shape'], (c0, c1, c2, c3))
    try:
        out = hC03.emit_text(doc)
    except Exception:
        return _res(False)
    return _res(out == doc)


# ---- (5b) statements whose variable names use everything the statement grammar allows compile ------------
VALID_NAME_DOCS = [
    '<a tal:define="foo-bar 1">t</a>', '<a tal:repeat="a-b (1, 2)">t</a>', '<a tal:define="global g-h 1">t</a>',
    '<a tal:define="(a-b, c) (1, 2)">t</a>', '<a tal:define="x_1 1; _y 2; Z9 3">t</a>',
    '<a tal:define="a-b 1"><b tal:define="a-b 2">t</b></a>', '<a tal:repeat="(k-1, v) ((1, 2),)">t</a>',
]


def valid_names(k: int, p: int) -> bool:
    """
    pre: 0 <= k < len(VALID_NAME_DOCS) and 0 <= p < 6
    post: _
    """
    from chameleon import PageTemplate
    from vlib.notrace import NoTracing
    text = pickv(PADS, p) + pickv(VALID_NAME_DOCS, k)
    with NoTracing():
        try:
            out = PageTemplate(text).render()
            ok = out.count('t') >= 1 and 'tal:' not in out
        except Exception:
            ok = False
    return _res(ok)


# ---- (6) compile histories: locations do not depend on what was compiled before -------------------------
# A clause with an error is compiled at several offsets (and lines), one compilation after the other in one
# process; every raised TemplateError must locate its token in the source of *that* compilation.
PADS = ['', ' ', '\n', '\n\n  ', '<b>x</b>', '<i>\n</i> ']
ERR_CLAUSES = [
    ('define-expr', '<div tal:define="x 1 +">a</div>'),
    ('define-second-part', '<div tal:define="y 1; x 1 +">a</div>'),
    ('content-expr', '<div tal:content="python: 1 +">a</div>'),
    ('not-prefix', '<div tal:condition="not: 1 +">a</div>'),
    ('interpolation', '<div>${1 +}</div>'),
    ('attr-interpolation', '<div title="a ${1 +}">a</div>'),
    ('reserved-define', '<div tal:define="econtext 1">a</div>'),
    ('reserved-tuple', '<div tal:define="(a, rcontext) (1, 2)">a</div>'),
    ('reserved-repeat', '<div tal:repeat="__x (1, 2)">a</div>'),
    ('define-syntax', '<div tal:define="x">a</div>'),
    ('attributes-expr', '<div tal:attributes="title 1 +">a</div>'),
    ('unknown-statement', '<div tal:nosuch="x">a</div>'),
    ('content-and-replace', '<div tal:content="1" tal:replace="2">a</div>'),
    ('end-without-start', '<div>a</b></div>'),
    ('i18n-duplicate', '<div i18n:attributes="title; title">a</div>'),
    ('repeat-two-clauses', '<div tal:repeat="x a; y b">k</div>'),
    ('interpolation-in-pi', '<div><?foo a ${1 +} ?></div>'),
    ('empty-repeat', '<div tal:repeat="">k</div>'),
    ('empty-content', '<div tal:content="">k</div>'),
    ('fill-slot-outside-use', '<div metal:fill-slot="x">k</div>'),
    ('name-outside-translate', '<div i18n:name="x">k</div>'),
    ('end-tag-without-name', '<div>a</></div>'),
    ('end-tag-blank-before-name', '<div>a</ div>'),
    ('data-unknown-statement', '<div data-tal-contnt="a">k</div>'),
    ('data-bad-define', '<div data-tal-define="x">k</div>'),
    ('unknown-statement-renamed-prefix', '<div xmlns:t="http://xml.zope.org/namespaces/tal" t:contnt="a">k</div>'),
    # tal:case on the element that opens the switch (no enclosing switch)
    ('case-on-the-switch-element', '<div tal:switch="x" tal:case="1">A</div>'),
    ('case-without-switch', '<div><p tal:case="1">A</p></div>'),
    # metal:fill-slot outside the element that uses / extends a macro
    ('fill-slot-after-extend-macro', '<div><u metal:extend-macro="m"/><p metal:fill-slot="x">f</p></div>'),
    ('fill-slot-after-use-macro', '<div><u metal:use-macro="m"/>\n<p metal:fill-slot="x">f</p></div>'),
    # a code block that is not valid Python
    ('code-block-syntax', '<div>a</div>\n<?python 1 + ?>'),
    ('code-block-syntax-later-line', '<div>\n<?python\nx = 1\ny = (\n?>a</div>'),
    # an error in a part *before* an entity (entities only move the parts after them: known finding)
    ('error-before-entity-define', '<div tal:define="x 1 +; h string:?a=1&amp;b=2">a</div>'),
    ('error-before-entity-attributes', '<div tal:attributes="title 1 +; href string:?a=1&amp;b=2">a</div>'),
    ('error-before-entity-define-2', '<p>k</p><div tal:define="y 2; x 1 +; h string:?a=1&amp;b=2">a</div>'),
    ('unknown-expression-type-content', '<div tal:content="foo: 1">a</div>'),
    ('unknown-expression-type-interpolation', '<div>\n <b>x</b>\n   ${foo: 1}</div>'),
    ('unknown-expression-type-later-alternative', '<div tal:define="x python: 1 | foo: 2">a</div>'),
    ('unknown-expression-type-nonstrict', '<div tal:attributes="a structure foo: 2">a</div>'),
    ('nonstrict-content', '<div tal:content="1 +">a</div>'),
    ('nonstrict-interpolation-later-line', '<div>\n <b>x</b>\n   ${2 +}</div>'),
    ('nonstrict-define-second-part', '<div tal:define="y 1; x 1 +">a</div>'),
    # expressions written over several lines
    ('multiline-content', '<div tal:content="1 +\n  2 +">a</div>'),
    ('multiline-interpolation', '<div>${1 +\n 2 +}</div>'),
    ('multiline-define-part', '<div tal:define="x 1;\n y 2 +\n 3 +">a</div>'),
]


ERR_OPTIONS = {'unknown-expression-type-nonstrict': {'strict': False}, 'nonstrict-content': {'strict': False}, 'nonstrict-interpolation-later-line': {'strict': False},
               'nonstrict-define-second-part': {'strict': False},
               'data-unknown-statement': {'enable_data_attributes': True},
               'data-bad-define': {'enable_data_attributes': True}}


class NotATemplateError(Exception):
    """a rejection that is not derived from TemplateError (a located error is what the property asks for)"""
    token = None


def _compile_error(text, opts=None):
    from chameleon import PageTemplate
    from vlib.notrace import NoTracing
    # compile() and the compiler's own use of inspect/textwrap are outside the tracer: the history (which
    # clause, at which offset, in which order) is what the solver ranges over, each compilation is concrete
    with NoTracing():
        try:
            t = PageTemplate(text, **(opts or {}))
            if opts and opts.get('strict') is False:
                t.render()          # the error is raised when the expression is reached
        except TemplateError as exc:
            return exc
        except Exception as exc:
            return NotATemplateError(repr(exc))
        return None


def _located(exc, text):
    if isinstance(exc, NotATemplateError):
        return False
    t = exc.token
    if not hasattr(t, 'pos') or t.source is None:
        return False
    if text[t.pos:t.pos + len(t)] != t:
        return False
    # line / column as reported by the token against the closed form on this compilation's source
    before = text[:t.pos]
    line = before.count('\n') + 1
    col = len(before) - (before.rfind('\n') + 1)
    return t.location == (line, col)


def compile_history(k0: int, p0: int, k1: int, p1: int, k2: int, p2: int) -> bool:
    """
    pre: 0 <= p0 < 6 and 0 <= p1 < 6 and 0 <= p2 < 6
    pre: 0 <= k0 < len(CFG['clauses']) and 0 <= k1 < len(CFG['clauses']) and 0 <= k2 < len(CFG['clauses'])
    post: _
    """
    clauses = CFG['clauses']
    ok = True
    steps = ((k0, p0), (k1, p1), (k2, p2))[:CFG.get('steps', 2)]
    for (k, p) in steps:
        name = pickv(clauses, k)
        text = pickv(PADS, p) + dict(ERR_CLAUSES)[name]
        exc = _compile_error(text, ERR_OPTIONS.get(name))
        ok = ok and exc is not None and _located(exc, text)
    return _res(ok)


def pickv(table, idx):
    for j in range(len(table)):
        if idx == j:
            return table[j]
    raise IndexError(idx)


# ---- (7) what a ';'-separated statement argument splits into (semantics, not positions) ----------------
def _ref_split(text):
    """left to right: ';;' is a literal ';', a single ';' ends the part; a blank last part after a
    separator is dropped (documented for tal:define / tal:attributes)"""
    parts = []
    cur = ''
    i = 0
    n = len(text)
    while i < n:
        ch = text[i]
        if ch == ';':
            if i + 1 < n and text[i + 1] == ';':
                cur = cur + ';'
                i += 2
                continue
            parts.append(cur)
            cur = ''
            i += 1
            continue
        cur = cur + ch
        i += 1
    parts.append(cur)
    if len(parts) > 1 and not parts[-1].strip():
        parts.pop()
    return parts


def split_texts(c0: int, c1: int, c2: int, c3: int, i: int, j: int, ni: bool, nj: bool) -> bool:
    """
    pre: 0 <= c0 < 0x110000 and 0 <= c1 < 0x110000 and 0 <= c2 < 0x110000 and 0 <= c3 < 0x110000
    pre: i == 0 and j == 0
    post: _
    """
    text = build(CFG['shape'], (c0, c1, c2, c3))
    if '&' in text or '\0' in text:
        return _res(True)          # entities / the internal placeholder: the known-finding domain of C11
    got = [str(p) for p in tal.split_parts(token_for(text))]
    want = _ref_split(text)
    ok = len(got) == len(want)
    if ok:
        for a, b in zip(got, want):
            if a != b:
                ok = False
    return _res(ok)
