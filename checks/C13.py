"""C13 -- tal:on-error replaces exactly the failed element's output with the fallback (DESIGN.md 4, C13)."""
from vlib.tprog import py

HG = 'checks.hG'


def L(k):
    return {'interp': py('L(%d)' % k)}


def doc(*children):
    return {'tag': 'div', 'close_indent': 0, 'children': ['A'] + list(children) + ['Z']}


def programs(tier):
    out = []
    fb = ['text', py("'E1'")]
    fb2 = ['text', py("'E2'")]
    fb3 = ['text', py("'E3'")]
    o3 = lambda *ks: [[k, 'out3', k] for k in ks]   # noqa: E731
    out.append(('single', doc({'tag': 'a', 'static': [['id', 'x']], 'onerror': fb,
                               'children': ['p', L(0), 'm', L(1), 'q']}), o3(0, 1)))
    out.append(('none', doc({'tag': 'a', 'children': ['p', L(0), 'q']}), o3(0)))
    out.append(('nested2', doc({'tag': 'a', 'onerror': fb, 'children': [
        'A1', {'tag': 'b', 'onerror': fb2, 'children': ['B1', L(0), 'B2']}, 'C1', L(1), 'D1']}), o3(0, 1)))
    out.append(('nested2-inner-ok-first', doc({'tag': 'a', 'static': [['class', 'k']], 'onerror': fb, 'children': [
        L(2), {'tag': 'b', 'onerror': fb2, 'children': ['B1']}, L(0), {'tag': 'c', 'onerror': fb3, 'children': [L(1)]},
        'T']}), o3(0, 1, 2)))
    out.append(('siblings', doc({'tag': 'a', 'onerror': fb, 'children': [L(0)]}, 'mid',
                                {'tag': 'b', 'onerror': fb2, 'children': [L(1)]}), o3(0, 1)))
    out.append(('omit', doc({'tag': 'a', 'omit': '', 'onerror': fb, 'children': ['p', L(0), 'q']}), o3(0)))
    out.append(('omit-expression', doc({'tag': 'a', 'omit': py('ov'), 'static': [['class', 'k']], 'onerror': fb,
                                        'children': ['p', L(0), 'q']}), o3(0) + [['ov', 'bool', 0]]))
    out.append(('repeat', doc({'tag': 'a', 'indent': 2, 'repeat': ['x', py('seq')], 'onerror': fb,
                               'children': ['i', {'interp': py('L(0) if x == 1 else x')}]}),
                [[0, 'out3', 0], ['seq', 'lenN', 1]]))
    out.append(('define-condition', doc({'tag': 'a', 'define': [['local', 'v', py('L(0)')]],
                                         'condition': py('L(1)'), 'onerror': fb, 'children': ['body', L(2)]}),
                o3(0, 1, 2) + [[1, 'lbool', 1]]))
    out.append(('error-type', doc({'tag': 'a', 'onerror': ['text', py('error.type.__name__')],
                                   'children': [L(0)]}), o3(0)))
    out.append(('error-value', doc({'tag': 'a', 'onerror': ['text', py('str(error.value)')],
                                    'children': [L(0)]}), o3(0)))
    out.append(('structure', doc({'tag': 'a', 'onerror': ['structure', py("'<b>E</b>'")], 'children': [L(0)]}),
                o3(0)))
    out.append(('text-escaped', doc({'tag': 'a', 'onerror': ['text', py("'<b>E</b>'")], 'children': [L(0)]}),
                o3(0)))
    out.append(('attrs', doc({'tag': 'a', 'static': [['id', 'x'], ['class', 'c'], ['t', ['v', {'interp': py('1')}]]],
                              'attributes': [['class', py('L(1)')], ['title', py("'n'")]], 'onerror': fb,
                              'children': [L(0)]}), o3(0, 1)))
    # dictionary-form tal:attributes on the guarded element (the fallback tag has the static attributes only;
    # a failing dictionary expression is handled like any other failure of the element)
    out.append(('dict-attrs', doc({'tag': 'a', 'attributes': [[None, py("{'title': L(1)}")]], 'onerror': fb,
                                   'children': [L(0)]}), o3(0, 1)))
    out.append(('dict-attrs-static', doc({'tag': 'a', 'static': [['class', 'c']],
                                          'attributes': [[None, py("{'title': L(1)}")]], 'onerror': fb,
                                          'children': [L(0)]}), o3(0, 1)))
    out.append(('dict-attrs-nested', doc({'tag': 'o', 'onerror': fb2, 'children': [
        'pre', {'tag': 'a', 'attributes': [[None, py("{'title': L(1)}")]], 'onerror': fb, 'children': [L(0)]}, 'post']}),
        o3(0, 1)))
    # the guarded element is also a macro definition (rendered in place)
    out.append(('on-macro-definition', doc({'tag': 'a', 'define_macro': 'm', 'onerror': fb, 'children': ['p', L(0), 'q']}),
                o3(0)))
    # what the failed element had defined is gone with it, and `error` exists in the fallback only
    P = lambda n, t: {'tag': 'u', 'children': [t + '=', {'interp': {'pipe': [py('show(%s)' % n), py("'U'")]}}]}   # noqa: E731
    out.append(('locals-of-failed-element', doc(P('v', '0'), {'tag': 'a', 'onerror': fb, 'children': [
        {'tag': 'i', 'define': [['local', 'v', py('1')]], 'children': ['in', L(0)]}, 'tail']}, P('v', '1'), P('error', 'e')),
        o3(0) + [['v', 'maybe3', 1]]))
    out.append(('loop-variable-of-failed-element', doc({'tag': 'a', 'onerror': fb, 'children': [
        {'tag': 'i', 'indent': 4, 'repeat': ['v', py('seq')], 'children': [{'interp': py('L(0) if v == 1 else v')}]}]},
        P('v', '1')), [[0, 'out3', 0], ['seq', 'lenN', 2], ['v', 'maybe3', 1]]))
    out.append(('global-of-failed-element-stays', doc({'tag': 'a', 'onerror': fb, 'children': [
        {'tag': 'i', 'define': [['global', 'g', py('7')]], 'children': ['in', L(0)]}]}, P('g', 'g')), o3(0)))
    out.append(('several-globals-of-failed-element-stay', doc({'tag': 'a', 'onerror': fb, 'children': [
        {'tag': 'i', 'define': [['global', ['ga', 'gb'], py('(7, 8)')]], 'children': ['in', L(0)]}]}, P('ga', 'a'), P('gb', 'b')), o3(0)))
    # tal:case and tal:on-error on one element: a matching case whose content fails still is the matching case
    out.append(('case-and-on-error', doc({'tag': 'ul', 'switch': py('sv'), 'children': [
        {'tag': 'li', 'case': py('1'), 'static': [['class', 'a']], 'onerror': fb, 'children': ['one', L(0)]},
        {'tag': 'li', 'case': py('1'), 'onerror': fb2, 'children': ['again', L(1)]},
        {'tag': 'li', 'case': py('default'), 'children': ['D']}]}), o3(0, 1) + [['sv', 'int', 2]]))
    out.append(('fallback-fails', doc({'tag': 'a', 'onerror': fb, 'children': [
        {'tag': 'b', 'onerror': ['text', py('L(1)')], 'children': [L(0)]}, 'after']}), o3(0, 1)))
    out.append(('content', doc({'tag': 'a', 'content': ['text', py('L(0)')], 'onerror': fb, 'children': ['x']}),
                o3(0)))
    out.append(('in-translate', doc({'tag': 'p', 'i18n_translate': '', 'children': [
        'x ', {'tag': 'span', 'static': [['class', 'k']], 'onerror': fb, 'children': ['partial ', L(0)]}, ' y']}), o3(0)))
    # translation settings of the failed element end with it
    out.append(('in-i18n-settings', doc({'tag': 'span', 'i18n_domain': 'inner', 'i18n_context': 'ictx', 'i18n_target': "'fr'",
                                         'onerror': fb, 'children': [{'tag': 'b', 'i18n_translate': '', 'children': ['in']}, L(0)]},
                                        {'tag': 'p', 'i18n_translate': '', 'children': ['after']}), o3(0)))
    out.append(('in-name', doc({'tag': 'p', 'i18n_translate': '', 'children': [
        'a ', {'tag': 'b', 'i18n_name': 'n', 'children': ['pre ', {'tag': 'span', 'onerror': fb2, 'children': ['q', L(0)]}]},
        ' c ', {'tag': 'i', 'onerror': fb3, 'children': [L(1)]}]}), o3(0, 1)))
    # strict=False: an expression that does not compile raises when it is reached -- inside a guarded element
    # that is a failure like any other
    out.append(('nonstrict-invalid-expression', doc({'tag': 'a', 'static': [['id', 'x']], 'onerror': fb, 'children': [
        'p', {'interp': {'py': '1 +', 'site': 0}}, 'q']}, 'mid', {'tag': 'b', 'onerror': fb2, 'condition': py('cv'),
                                                                  'children': [{'interp': {'py': '2 +', 'site': 1}}]}),
        [['cv', 'bool', 0]]))
    if tier != 'quick':
        out.append(('nested3', doc({'tag': 'a', 'onerror': fb, 'children': [
            'A1', {'tag': 'b', 'onerror': fb2, 'children': [
                'B1', {'tag': 'c', 'onerror': fb3, 'children': ['C1', L(0)]}, L(1)]}, L(2), 'D1']}), o3(0, 1, 2)))
        out.append(('nested4', doc({'tag': 'a', 'onerror': fb, 'children': [
            {'tag': 'b', 'onerror': fb2, 'children': [
                {'tag': 'c', 'onerror': fb3, 'children': [
                    {'tag': 'd', 'onerror': ['text', py("'E4'")], 'children': [L(0)]}, L(1)]}, L(2)]}, L(3)]}),
            o3(0, 1, 2, 3)))
        out.append(('nested-between-omit-repeat', doc({'tag': 'a', 'onerror': fb, 'children': [
            {'tag': 'r', 'indent': 4, 'repeat': ['x', py('seq')], 'children': [
                {'tag': 'b', 'omit': '', 'onerror': fb2, 'children': ['i', {'interp': py('L(0) if x == 1 else x')}]}]},
            L(1)]}), [[0, 'out3', 0], [1, 'out3', 1], ['seq', 'lenN', 2]]))
    return out


def generated(count, seed):
    """on-error trees from a small grammar (deterministic in ``seed``): elements nested up to depth 3, any of
    them guarded (text / structure fallback, fallback reading error.type), carrying define / condition / repeat /
    omit-tag / attributes / content; up to 3 evaluation points L(k), each of which the solver lets succeed or
    fail with one of two exception classes; probes of defined names after the elements."""
    import random
    rnd = random.Random(13000 + seed)
    out = []
    for n in range(count):
        state = {'k': 0}
        vars_ = []

        def leaf():
            if state['k'] >= 3:
                return 'txt'
            k = state['k']
            state['k'] += 1
            vars_.append([k, 'out3', k])
            return L(k)

        def element(depth):
            tag = rnd.choice(['a', 'b', 'c', 'd'])
            e = {'tag': tag, 'children': []}
            if rnd.random() < 0.55:
                e['onerror'] = rnd.choice([['text', py("'E%d'" % depth)], ['structure', py("'<s>E</s>'")],
                                           ['text', py('error.type.__name__')]])
            if rnd.random() < 0.3:
                e['static'] = [['class', 'k%d' % depth]]
            st = rnd.choice(['none', 'none', 'define', 'condition', 'repeat', 'omit', 'attributes', 'content'])
            if st == 'define':
                e['define'] = [['local', 'w', py('%d' % (depth + 1))]]
            elif st == 'condition':
                e['condition'] = py('cv')
            elif st == 'repeat':
                e['repeat'] = ['x', py('seq')]
                e['indent'] = 2 * depth + 2
            elif st == 'omit':
                e['omit'] = ''
            elif st == 'attributes' and state['k'] < 3:
                k = state['k']
                state['k'] += 1
                vars_.append([k, 'out3', k])
                e['attributes'] = [['title', py('L(%d)' % k)]]
            kids = [rnd.choice(['p', 'q ', ''])]
            for _ in range(rnd.choice([1, 2, 2, 3])):
                r = rnd.random()
                if r < 0.45:
                    kids.append(leaf())
                elif r < 0.8 and depth < 2:
                    kids.append(element(depth + 1))
                else:
                    kids.append(rnd.choice(['t', 'u ']))
            if st == 'content' and state['k'] < 3:
                k = state['k']
                state['k'] += 1
                vars_.append([k, 'out3', k])
                e['content'] = ['text', py('L(%d)' % k)]
            e['children'] = [c for c in kids if c != '']
            return e
        probe = {'tag': 'u', 'children': ['w=', {'interp': {'pipe': [py('show(w)'), py("'U'")]}}]}
        tree = doc(element(0), 'mid', element(0), probe)
        vs = vars_ + [['cv', 'bool', 4], ['seq', 'lenN', 4]]
        out.append(('gen-%d-%d' % (seed, n), tree, vs))
    return out


def macro_pairs():
    """on-error with macros in between, decided metamorphically (template with METAL vs its inlined form, C09's
    harness): the guarded element uses a macro whose body fails; a handler inside a macro around a slot whose
    filler fails; handlers in caller and macro; a global defined by the macro before it fails"""
    import copy
    from checks.C09 import I, el, use
    from vlib import metal_inline as mi
    out = []

    def add(label, tree, vars_):
        macros = mi.collect_macros(tree, {})
        inlined = mi.inline(copy.deepcopy(tree), macros)
        assert len(inlined) == 1
        out.append({'label': 'macro:' + label, 'lib': None, 'caller': tree, 'inlined': inlined[0], 'vars': vars_, 'allow_exc': True})
    hide = lambda *m: el('hide', *m, condition=py('False'))     # noqa: E731
    F = lambda *ks: [[k, 'fail', k] for k in ks]                 # noqa: E731
    m = el('p', 'M ', I('L(0)'), ' tail', define_macro='m')
    add('guard-around-use', el('div', hide(m), 'A', el('a', 'pre ', use('m'), ' post', onerror=['text', py("'E1'")],
                                                       static=[['id', 'x']]), 'Z', I('L(1)')), F(0, 1))
    ms = el('p', 'M[', el('g', el('b', 'dflt', define_slot='s'), I('L(1)'), onerror=['text', py("'EM'")]), ']', define_macro='ms')
    add('handler-in-macro-filler-fails', el('div', hide(ms), use('ms', el('i', 'F ', I('L(0)'), fill_slot='s')), 'Z'), F(0, 1))
    add('handlers-in-caller-and-macro', el('div', hide(ms), el('a', use('ms', el('i', 'F ', I('L(0)'), fill_slot='s')),
                                                               I('L(2)'), onerror=['text', py("'EC'")]), 'Z'), F(0, 1, 2))
    mg = el('p', el('k', define=[['global', 'g', py("'set'")]]), I('L(0)'), define_macro='mg')
    add('global-before-failure', el('div', hide(mg), el('a', use('mg'), onerror=['text', py("'E'")]), '[', I("g | 'nog'"), ']'),
        F(0))
    add('failure-then-use-again', el('div', hide(m), el('a', use('m'), onerror=['text', py("error.type.__name__")]), '|',
                                     el('b', use('m'), onerror=['structure', py("'<s>E</s>'")])), F(0))
    # tal:on-error on the element that fills a slot, and on the element that defines a macro (used elsewhere)
    mslot = el('p', 'M[', el('b', 'dflt', define_slot='s'), ']', define_macro='mslot')
    add('handler-on-the-filler', el('div', hide(mslot), 'A', use('mslot', el('i', 'F ', I('L(0)'), ' t', fill_slot='s',
                                                                            static=[['class', 'k']], onerror=['text', py("'EF'")])), 'Z'), F(0))
    mg2 = el('p', 'M ', I('L(0)'), ' tail', define_macro='mg2', static=[['id', 'm']], onerror=['text', py("'EM'")])
    add('handler-on-the-macro-definition', el('div', hide(mg2), 'A', use('mg2'), 'Z'), F(0))
    return out


def plan(tier, seed):
    quick = tier == 'quick'
    jobs = []
    for label, prog, vars_ in programs(tier):
        j = {'prog': prog, 'vars': vars_, 'label': label, 'handler': True, 'i18n': label.startswith('in-')}
        if label.startswith('nonstrict'):
            j.update({'handler': False, 'options': {'strict': False}})
        jobs.append(j)
        if label in ('single', 'nested2', 'siblings'):
            # the handler is an object that is callable and false (an empty error log)
            jobs.append(dict(j, handler='falsy', label=label + ':falsy-handler'))
    for label, prog, vars_ in generated(24 if quick else 400, seed):
        jobs.append({'prog': prog, 'vars': vars_, 'label': label, 'handler': True, 'i18n': False})
    single = jobs[0]
    fam = dict(name='on_error_templates', module=HG, fn='H', jobs=jobs, timeout=300 if quick else 900,
               batch=2, vacuity=2, program_key='prog',
               mutants=[{'name': 'onerror_no_truncate', 'cfg': single},
                        {'name': 'onerror_catches_base', 'cfg': dict(single, vars=[[0, 'out', 0], [1, 'out3', 1]])}])
    mj = macro_pairs()
    famM = dict(name='on_error_with_macros', module='checks.hC09', fn='H', jobs=mj, timeout=300, vacuity=1,
                program_key='label', mutants=[])
    famT = dict(name='fallback_start_tag', module='checks.hC13', fn='fallback_tag', jobs=[{}], timeout=300, vacuity=1,
                mutants=[{'name': 'fallback_suffix_untrimmed', 'cfg': {}}])
    return dict(
        level='translation_validation',
        functions=['chameleon.compiler:Compiler.visit_OnError', 'chameleon.zpt.program:MacroProgram.visit_element',
                   'chameleon.tal:ErrorInfo', 'chameleon.zpt.template:PageTemplate.render',
                   'chameleon.template:BaseTemplate.render'],
        bounds=('%d templates (the hand-written ones plus trees generated from a grammar: elements nested to depth 3, any of them guarded, with define / condition / repeat / omit-tag / attributes / content and up to 3 evaluation points): on-error on single / nested (depth <= %d) / sibling elements, with omit-tag, repeat, '
                'define+condition, tal:attributes, tal:content, text/structure fallback, error.type/value probes, '
                'failing fallback; per evaluation point the solver ranges over {succeeds, raises ValueError, raises a '
                'custom Exception}; repeat length 0..3/None; on_error_handler call sequence compared; 5 programs with macros between '
                'handlers and failing points (guard around a use, handler inside a macro around a filled slot, both, a global set before the failure, repeated use) compared with their inlined form; 5 elements with start tags written over several lines, trim_attribute_space on and off: the start tag of the fallback element is the one the element itself gets. Outside: error.lineno/offset values (C12 covers '
                'positions), non-Exception BaseExceptions.' % (len(jobs), 2 if quick else 4)),
        assumptions=['reference: try/except Exception per guarded element, truncate to the element start, fallback = '
                     'start tag with static attributes + value + end tag (vlib/refsem.py from docs/reference.rst)'],
        families=[fam, famM, famT],
    )
