"""C16 -- file templates follow their files; the loader resolves names predictably (DESIGN.md 4, C16)."""
H = 'checks.hC16'


def plan(tier, seed):
    quick = tier == 'quick'
    n = 3 if quick else 5
    hj = []
    for auto in (True, False):
        for o0 in range(5):
            for o1 in (range(5) if not quick else [None]):
                cfg = {'n': n if (auto or quick) else 4, 'auto_reload': auto, 'o0': o0, 'init_version': (o0 + 1) % 3}
                if o1 is not None:
                    cfg['o1'] = o1
                hj.append(cfg)
    # the same with a version that does not compile among those written
    for o0 in range(5):
        hj.append({'n': 3 if quick else 4, 'auto_reload': True, 'o0': o0, 'init_version': o0 % 2, 'versions': [0, 3, 1],
                   'warm': o0 % 2 == 0})
    famH = dict(name='reload_histories', module=H, fn='history', jobs=hj, timeout=900 if quick else 3000, vacuity=1,
                mutants=[{'name': 'keep_stale_macros', 'cfg': {'n': 3, 'auto_reload': True}},
                         {'name': 'mtime_truthy', 'cfg': {'n': 3, 'auto_reload': True}},
                         {'name': 'content_type_sticky', 'cfg': {'n': 3, 'auto_reload': True, 'init_version': 0}},
                         {'name': 'names_without_check', 'cfg': {'n': 3, 'auto_reload': True}}])
    famS = dict(name='reload_step_from_any_state', module=H, fn='step',
                jobs=[{'auto_reload': True}, {'auto_reload': False}], timeout=900, vacuity=1,
                mutants=[{'name': 'keep_stale_macros', 'cfg': {'auto_reload': True}},
                         {'name': 'mtime_truthy', 'cfg': {'auto_reload': True}},
                         {'name': 'mtime_monotone', 'cfg': {'auto_reload': True}},
                         {'name': 'always_recook', 'cfg': {'auto_reload': True}},
                         {'name': 'content_type_sticky', 'cfg': {'auto_reload': True}},
                         {'name': 'names_without_check', 'cfg': {'auto_reload': True}}])
    tj = [{'two_files': True, 'n': 3 if quick else 4, 'o0': o0} for o0 in range(5)]
    famT = dict(name='reload_histories_two_files', module=H, fn='history2', jobs=tj, timeout=900 if quick else 3000, vacuity=1,
                mutants=[{'name': 'mtime_truthy', 'cfg': {'two_files': True, 'n': 3, 'o0': 1}}])
    rj = [{'ext': ext, 'dirs': d} for ext in ('.pt', None) for d in (1, 2, 3)]
    rj.append({'ext': '.pt', 'ext_arg': 'pt', 'dirs': 2})
    rj.append({'ext': '.pt', 'dirs': 1, 'str_path': True})
    famR = dict(name='loader_resolution', module=H, fn='resolve', jobs=rj, timeout=600, vacuity=1,
                mutants=[{'name': 'extension_always', 'cfg': {'ext': '.pt', 'dirs': 2}},
                         {'name': 'last_match_wins', 'cfg': {'ext': '.pt', 'dirs': 2}},
                         {'name': 'no_break_after_match', 'cfg': {'ext': '.pt', 'dirs': 2}},
                         {'name': 'cache_by_class_only', 'cfg': {'ext': '.pt', 'dirs': 2}}])
    famB = dict(name='loader_bound_to_a_class', module=H, fn='bound', jobs=[{}], timeout=300, vacuity=1, mutants=[])
    zj = [{'ext': ext, 'dirs': d, 'getitem': g, 'loads': 3 if (d == 2 and not quick) else 2} for ext in ('.pt', None)
          for d in ((2,) if quick else (2, 3)) for g in (False, True)]
    famZ = dict(name='loader_histories', module=H, fn='zpt_loads', jobs=zj, timeout=900, vacuity=1,
                mutants=[{'name': 'shared_search_path', 'cfg': {'ext': '.pt', 'dirs': 2}}])
    lj = [{'dirs': d, 'dynamic': dyn} for d in (1, 2, 3) for dyn in (False, True)]
    famL = dict(name='load_expression', module=H, fn='load_expr', jobs=lj, timeout=600, vacuity=1,
                mutants=[{'name': 'relative_appended', 'cfg': {'dirs': 2, 'dynamic': False}}])
    return dict(
        level='model_checking',
        functions=['chameleon.template:BaseTemplateFile.cook_check', 'chameleon.template:BaseTemplateFile.mtime',
                   'chameleon.template:BaseTemplateFile.read', 'chameleon.template:BaseTemplateFile.__init__',
                   'chameleon.template:BaseTemplateFile._set_filename', 'chameleon.template:BaseTemplate.cook',
                   'chameleon.template:BaseTemplate.render', 'chameleon.zpt.template:PageTemplate.render',
                   'chameleon.zpt.template:Macros.__getitem__', 'chameleon.zpt.template:Macros.names',
                   'chameleon.zpt.template:PageTemplateFile.__init__', 'chameleon.zpt.template:PageTemplateFile._builtins',
                   'chameleon.loader:TemplateLoader.load', 'chameleon.loader:TemplateLoader.__init__',
                   'chameleon.loader:cache', 'chameleon.zpt.loader:TemplateLoader.load',
                   'chameleon.tales:ProxyExpr.translate_proxy', 'chameleon.utils:read_bytes'],
        bounds=('reload step (histories of any length by induction over uses): from the never-used instance or from the '
                'representative of "compiled from version v at modification time m" (v one of 3, m any integer >= 0), with '
                'the file unchanged, rewritten (any of 3 versions) or touched (any other mtime), one use through '
                'render / macros.names / macros[one of 3 names]: result, number of compilations (1 iff first use or the '
                'mtime changed and auto_reload is on) and the post-state -- attribute for attribute the same as the '
                'representative of the state the oracle names (same entry points by code object, same content type / '
                'encoding / mtime, no other attribute) -- so nothing of an earlier version survives and the next use '
                'starts from a state this harness also starts from. Bounded histories in addition: every sequence of %d '
                'operations (quick 3; thorough 5, auto_reload off 4) from {write one of 3 versions, touch, '
                'render/__call__, macros.names, macros[one of 3 names]}, operation kinds, versions, macro names and every '
                'modification time symbolic (any integer >= 0 '
                'that the file did not have before); after each use the result, and everything the instance holds (entry '
                'points, content type, encoding), must be those of a freshly constructed template on the latest version, '
                'and the number of compilations must equal the number of modifications observed; in a second set of histories (some starting from an instance that has already served the initial version) one of the versions written does not compile: every use then raises the template error (nothing of an earlier version is served) until the file changes again. Two files: a page that uses a macro template next to it through load: -- every sequence of 3 (thorough 4) operations from {write page / part (2 versions each: with/without slot and filler), touch page / part, render the page} followed by a render, symbolic mtimes: the output is that of a fresh page on the latest versions of both files and each file is recompiled exactly when its own mtime changed. The 3 versions differ in '
                'body, macro set ({m1}, {m1,m2}, {}) and content type/encoding (xml declaration, none, meta). Loader: '
                'TemplateLoader.load for 12 spec forms (dotted, dot-less, padded, nested, dot in a directory, other '
                'extension, absolute, package-relative) x a second spec, 1-3 search directories, default extension set '
                '(with and without the leading dot) / unset, every existence pattern of the candidate files (6 symbolic '
                'bits; with 3 directories the third repeats the first), three loads per history; zpt loader: histories of '
                '2 loads (thorough: 3, and 2 over 3 directories) over 4 names x xml/text format through load()/[], 2 directories, all existence patterns; '
                'load: expressions (static and ${}-computed name) in a file template living in one of 3 directories, '
                '1-3 search directories, all existence patterns. Outside: real file systems and clocks (modification '
                'times are fresh by assumption: a change that keeps the old mtime is invisible by design), templates '
                'inside packages/zip files (import_package_resource), more than two files per history, histories longer '
                'than the bound.' % n),
        assumptions=['open()/os.path.getmtime()/os.path.exists() in chameleon.template / chameleon.loader answer from a '
                     'model (dict path -> bytes, mtime; symbolic existence matrix)',
                     'every modification gives the file a modification time it did not have before',
                     'the compile step is memoised per body (3 concrete documents); publishing entry points, forgetting '
                     'old ones and content-type detection are the real code'],
        families=[famS, famH, famT, famR, famB, famZ, famL],
    )
