"""C12 -- render errors keep their type and name the failing expression and position (DESIGN.md 4, C12)."""
H = 'checks.hC12'


def plan(tier, seed):
    quick = tier == 'quick'
    names = ['sites5', 'multiline', 'crlf', 'cr', 'crlf-xml', 'same-text-twice', 'entity-in-expression', 'column-zero', 'guards', 'replace-switch', 'string-structure', 'macro-chain',
             'macro-chain-composite', 'same-name-cached', 'inline-macro', 'recursive-macro', 'recursive-render', 'after-handled-macro-failure', 'filler-failure']
    jobs = [{'template': n, 'label': n} for n in names]
    fam = dict(name='render_error_sites', module=H, fn='H', jobs=jobs, timeout=600 if quick else 1800, vacuity=2,
               program_key='template',
               mutants=[{'name': 'wrap_base', 'cfg': {'template': 'sites5'}},
                        {'name': 'tokenref_unstripped', 'cfg': {'template': 'multiline'}},
                        {'name': 'args_dropped', 'cfg': {'template': 'guards'}}])
    return dict(
        level='translation_validation',
        functions=['chameleon.template:BaseTemplate.render', 'chameleon.utils:create_formatted_exception',
                   'chameleon.exc:ExceptionFormatter.__call__', 'chameleon.compiler:ExpressionEngine.get_compiler',
                   'chameleon.compiler:Compiler.visit_Macro', 'chameleon.compiler:Compiler.visit_UseExternalMacro',
                   'chameleon.tokenize:Token.location'],
        bounds=('%d templates with 3-6 evaluation points (define and attributes lists with several ;-separated parts, '
                '${} on several lines after non-ASCII text, expressions starting in column 0 of a later line, CRLF and CR line endings in and outside XML mode, the same composite expression text at two places of which only the second is reached, guards, switch/case/replace, string:/structure/python: '
                'forms, two sites with same-named identical files compiled through one on-disk module cache, a template rendering itself from an expression, a failure inside a slot filler, load:/use-macro chains over three files with plain and composite (computed name, fallback alternative) macro expressions); the solver ranges over the failing point, 8 '
                'exception classes (builtin, custom with extra constructor arguments, custom __str__, RecursionError, '
                'a non-Exception BaseException) and an unbounded integer constructor argument. Outside: '
                'on-error interplay (observed divergences '
                'reported by the seeding sub-agent, not part of this claim), real KeyboardInterrupt/SystemExit '
                '(a private BaseException subclass stands for them).' % len(jobs)),
        assumptions=['expected (expression text, line, column) computed by the harness from the template text it wrote',
                     'KeyboardInterrupt/SystemExit cannot be raised as data under CrossHair: stand-in class Stop(BaseException)'],
        families=[fam],
    )
