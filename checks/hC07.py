"""C07 harness: attribute rendering -- static, dynamic, default, None, boolean, dict (DESIGN.md 4, C07).

CFG: static: [[name, value, quote], ...]; entries: [[name|None, var], ...] (None = dict entry);
     bools: 'html' | 'none_xml' | 'empty' | ['checked', ...]; vars kinds as in bind().
"""
from chameleon import PageTemplate
from chameleon.tales import DEFAULT_MARKER

CFG = {}
STATE = {}
N = [1, 1, 1, 1, 1, 1]
VALS = [None, DEFAULT_MARKER, '', 0, False, True, 'a<" b&']
HTML_BOOLS = ("compact", "nowrap", "ismap", "declare", "noshade", "checked", "disabled", "readonly",
              "multiple", "selected", "noresize", "defer")


def pick(table, idx):
    for j in range(len(table)):
        if idx == j:
            return table[j]
    raise IndexError(idx)


def _mutate(name):
    from chameleon import tal
    from chameleon.zpt import template as zt
    import inspect
    import textwrap
    if name == 'bool_empty_is_unconfigured':
        src_fn = zt.PageTemplate.parse
        code = textwrap.dedent(inspect.getsource(src_fn)).replace('if boolean_attributes is None:',
                                                                  'if not boolean_attributes:')
        ns = dict(src_fn.__globals__)
        exec(code, ns)
        zt.PageTemplate.parse = ns['parse']
    elif name == 'case_sensitive_merge':
        src_fn = tal.prepare_attributes
        code = textwrap.dedent(inspect.getsource(src_fn)).replace(
            'index = normalized.get(name.lower()) if name else None',
            'index = normalized.get(name) if name else None')
        ns = dict(src_fn.__globals__)
        exec(code, ns)
        tal.prepare_attributes = ns['prepare_attributes']
    elif name == 'none_keeps_static':
        from chameleon import compiler as cc
        modsrc = inspect.getsource(cc)
        i = modsrc.index('emit_func_convert_and_escape = template(')
        j = modsrc.index('class EmitText')
        code = modsrc[i:j].replace('''        if target is None:
            return

        if target is default_marker:''', '''        if target is None:
            return default

        if target is default_marker:''')
        ns = dict(cc.__dict__)
        exec(code, ns)
        cc.emit_func_convert_and_escape = ns['emit_func_convert_and_escape']
    else:
        raise KeyError(name)


def template_text():
    s = '<a'
    for n, v, q in CFG['static']:
        s += ' %s=%s%s%s' % (n, q, v, q) if v is not None else ' ' + n      # valueless: name only
    ents = []
    for n, var in CFG['entries']:
        ents.append('%s %s' % (n, var) if n else var)
    if ents:
        s += ' tal:attributes="%s"' % '; '.join(ents)
    s += '>x</a>'
    if CFG.get('bools') == 'none_xml':
        s = '<?xml version="1.0"?>\n' + s
    return s


def bool_set():
    b = CFG.get('bools', 'html')
    if b == 'html':
        return HTML_BOOLS
    if b in ('none_xml', 'empty'):
        return ()
    return tuple(b)


def prepare(cfg):
    if cfg.get('mutant'):
        _mutate(cfg['mutant'])
    opts = {}
    b = cfg.get('bools', 'html')
    if b == 'empty':
        opts['boolean_attributes'] = set()
    elif isinstance(b, list):
        opts['boolean_attributes'] = set(b)
    STATE['text'] = template_text()
    if cfg.get('reloaded_after') is not None:
        # a file template that first served a document of the other kind (XML declaration or not) and was
        # re-cooked from the document under test after its file had changed
        from chameleon.zpt import template as zt
        from checks import hC16
        hC16._install_model()
        path = '/model/c07/page.pt'
        first = {'xml': b'<?xml version="1.0"?>\n<a checked="x">first</a>', 'html': b'<a checked="x">first</a>'}[cfg['reloaded_after']]
        hC16.FILES[path] = [first, 1]
        t = zt.PageTemplateFile(path, auto_reload=True, **opts)
        t.render()
        hC16.FILES[path] = [STATE['text'].encode('utf-8'), 2]
        t.render(**{name: None for name, kind, slot in cfg['vars']})     # re-cooked here, natively
        STATE['tpl'] = t
    elif cfg.get('compiled_after') is not None:
        # the same source compiled first under another boolean-attribute configuration, both through one
        # on-disk module cache
        from vlib.cachepair import compile_through_one_cache
        first = {}
        if cfg['compiled_after'] == 'empty':
            first['boolean_attributes'] = set()
        elif isinstance(cfg['compiled_after'], list):
            first['boolean_attributes'] = set(cfg['compiled_after'])
        STATE['tpl'] = compile_through_one_cache([(PageTemplate, STATE['text'], first),
                                                  (PageTemplate, STATE['text'], opts)])[1]
    else:
        STATE['tpl'] = PageTemplate(STATE['text'], **opts)
    for k in range(6):
        N[k] = 1
    for name, kind, slot in cfg['vars']:
        if kind == 'val':
            N[slot] = len(VALS)


IV = 'X&y'           # what ${iv} inside a static attribute value evaluates to


def static_value(v):
    """the text a static attribute shows when nothing dynamic targets it (its ${iv} evaluated and escaped)"""
    return v if v is None else v.replace('${iv}', IV.replace('&', '&amp;'))


def bind(ints, bools):
    b = {'iv': IV}
    for name, kind, slot in CFG['vars']:
        if kind == 'val':
            b[name] = pick(VALS, ints[slot])
        elif kind == 'dict':
            # slot = [[key, value-var-or-const, presence-bool-slot], ...]
            d = {}
            for key, valname, pslot in slot:
                if bools[pslot]:
                    d[key] = b[valname] if isinstance(valname, str) and valname in b else valname
            b[name] = d
    return b


def unescape(s):
    return (s.replace('&lt;', '<').replace('&gt;', '>').replace('&quot;', '"').replace('&#34;', '"')
            .replace('&#39;', "'").replace('&amp;', '&'))


def read_start_tag(out):
    """independent reader: '<a' (space+ name = quote value quote)* '>' -> [(name, quote, raw value)]"""
    i = out.find('<a')
    if i < 0:
        return None
    i += 2
    res = []
    n = len(out)
    while i < n:
        if out[i] == '>':
            return res
        if out[i] != ' ':
            return None
        while i < n and out[i] == ' ':
            i += 1
        j = i
        while j < n and out[j] not in '= >':
            j += 1
        name = out[i:j]
        if j < n and out[j] in ' >':
            res.append((name, None, None))       # valueless attribute
            i = j
            continue
        if j >= n or out[j] != '=' or j + 1 >= n:
            return None
        q = out[j + 1]
        if q not in '"\'':
            # unquoted value: up to the next blank or '>'
            k = j + 1
            while k < n and out[k] not in ' >':
                k += 1
            res.append((name, '', out[j + 1:k]))
            i = k
            continue
        k = out.find(q, j + 2)
        if k < 0:
            return None
        res.append((name, q, out[j + 2:k]))
        i = k + 1
    return None


def expected(b):
    """name(lower) -> ('static', raw text) | ('dyn', text) as the property statement prescribes; plus the
    list of names that are decided by a dict (their position is not asserted)."""
    bools = list(bool_set())     # matched by exact name, as configured (case handling unspecified)
    final = {}
    order = []
    static_text = {}
    for n, v, q in CFG['static']:
        final[n.lower()] = ('static', static_value(v))
        static_text[n.lower()] = static_value(v)
        order.append(n.lower())
    dict_decided = set()
    for n, var in CFG['entries']:
        val = b[var]
        if n is not None:
            srcs = [(n, val, False)]
        else:
            srcs = [(k, val[k], True) for k in val]
        for name, v, from_dict in srcs:
            key = name.lower()
            if key not in final and key not in order:
                order.append(key)
            if from_dict:
                dict_decided.add(key)
            else:
                dict_decided.discard(key)
            if v is DEFAULT_MARKER and not from_dict:
                if key in static_text:
                    final[key] = ('static', static_text[key])
                else:
                    final.pop(key, None)
                continue
            if name in bools:
                if v is DEFAULT_MARKER:
                    continue
                if v:
                    final[key] = ('dyn', name)
                else:
                    final.pop(key, None)
                continue
            if v is None:
                final.pop(key, None)
                continue
            if isinstance(v, bool) or isinstance(v, int):
                final[key] = ('dyn', str(v))
            else:
                final[key] = ('dyn', v)
    return final, order, dict_decided


def known_excluded(b):
    ex = CFG.get('exclude') or ()
    if 'dict_value_default' in ex:
        for n, var in CFG['entries']:
            if n is None:
                for k in b[var]:
                    if b[var][k] is DEFAULT_MARKER:
                        return True
    if 'dict_key_other_case' in ex:
        names = [n for n, v, q in CFG['static']] + [n for n, var in CFG['entries'] if n]
        for n, var in CFG['entries']:
            if n is None:
                for k in b[var]:
                    for other in names:
                        if other != k and other.lower() == k.lower():
                            return True
    if 'valueless_static_computed' in ex:
        # a static attribute written without a value that a named entry overwrites with a computed value
        for n, v, q in CFG['static']:
            if v is None:
                for en, var in CFG['entries']:
                    if en is not None and en.lower() == n.lower() and b[var] is not None \
                            and b[var] is not DEFAULT_MARKER and (n not in bool_set() or b[var]):
                        return True
    if 'default_over_interpolated_static' in ex:
        # a named entry whose value is `default` for a static attribute that contains ${...}
        for n, v, q in CFG['static']:
            if v is not None and '${' in v:
                for en, var in CFG['entries']:
                    if en is not None and en.lower() == n.lower() and b[var] is DEFAULT_MARKER:
                        return True
    if 'dict_before_named_static' in ex:
        # an attribute dictionary that precedes (in the statement) a named entry for a *static* attribute
        # and also provides that name
        seen_dict = []
        statics = [n.lower() for n, v, q in CFG['static']]
        for n, var in CFG['entries']:
            if n is None:
                seen_dict = seen_dict + [k.lower() for k in b[var]]
            elif n.lower() in statics and n.lower() in seen_dict:
                return True
    return False


def check(b):
    if known_excluded(b):
        return True
    out = STATE['tpl'].render(**b)
    tag = read_start_tag(out)
    if tag is None:
        return False
    final, order, dict_decided = expected(b)
    seen = []
    for name, q, raw in tag:
        key = name.lower()
        if key in seen:
            return False                      # at most once per name
        seen.append(key)
        if key not in final:
            return False
        kind, text = final[key]
        if kind == 'static':
            if raw != text:                   # exactly as written
                return False
        else:
            if '<' in raw or (q and q in raw) or (not q and ('"' in raw or "'" in raw or '=' in raw)):
                return False
            if unescape(raw) != text:
                return False
    for key in final:
        if key not in seen:
            return False
    # order: names not decided by a dict appear in 'order' (statics first, then new names in
    # statement order)
    fixed = [k for k in seen if k not in dict_decided]
    want = [k for k in order if k in final and k not in dict_decided]
    return fixed == want


def H(i0: int, i1: int, i2: int, i3: int, b0: bool, b1: bool, b2: bool, b3: bool) -> bool:
    """
    pre: 0 <= i0 < N[0] and 0 <= i1 < N[1] and 0 <= i2 < N[2] and 0 <= i3 < N[3]
    post: _
    """
    ok = check(bind((i0, i1, i2, i3), (b0, b1, b2, b3)))
    return (not ok) if CFG.get('negate') else ok


def explain(cfg, *args):
    b = bind(args[:4], args[4:])
    out = STATE['tpl'].render(**b)
    f, o, d = expected(b)
    return {'template': STATE['text'], 'bindings': {k: repr(v) for k, v in b.items()}, 'rendered': out,
            'read': read_start_tag(out), 'expected': {k: list(v) for k, v in f.items()}, 'order': o,
            'dict_decided': sorted(d)}
