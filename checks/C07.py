"""C07 -- attribute rendering: static, dynamic, default, None, boolean, dict (DESIGN.md 4, C07)."""
import random

H = 'checks.hC07'

STATICS = [
    [],
    [['class', 's1', '"']],
    [['class', 's1', '"'], ['id', 'i1', "'"]],
    [['Class', 'a&amp;b', '"'], ['title', 't&lt;', "'"]],
    [['checked', 'checked', '"'], ['class', 's1', '"']],
    [['href', 'x?a=1&amp;b=2', '"'], ['CHECKED', 'yes', "'"], ['id', 'i1', '"']],
    [['class', 's1', ''], ['id', 'i1', '"']],                  # an unquoted static attribute
    [['id', 'i1', '"'], ['k', None, None], ['checked', None, None]],   # valueless static attributes
    [['href', '${iv}/p', '"'], ['title', "a ${iv}", "'"], ['id', 'i1', '"']],   # static attributes with ${...}
]


def entry_sets():
    # [[name|None, var]...], vars
    V = lambda n, s: [n, 'val', s]   # noqa: E731
    out = []
    out.append(([['class', 'v0']], [V('v0', 0)]))
    out.append(([['CLASS', 'v0']], [V('v0', 0)]))
    out.append(([['title', 'v0']], [V('v0', 0)]))
    out.append(([['class', 'v0'], ['title', 'v1']], [V('v0', 0), V('v1', 1)]))
    out.append(([['title', 'v1'], ['class', 'v0']], [V('v0', 0), V('v1', 1)]))
    out.append(([['checked', 'v0']], [V('v0', 0)]))
    out.append(([['checked', 'v0'], ['disabled', 'v1']], [V('v0', 0), V('v1', 1)]))
    out.append(([['href', 'v0']], [V('v0', 0)]))
    out.append(([['k', 'v0']], [V('v0', 0)]))
    # the same name twice (other case), other names around it
    out.append(([['Title', 'v0'], ['x', 'v1'], ['title', 'v2']], [V('v0', 0), V('v1', 1), V('v2', 2)]))
    out.append(([['x', 'v1'], ['Title', 'v0'], ['title', 'v2']], [V('v0', 0), V('v1', 1), V('v2', 2)]))
    out.append(([['class', 'v0'], ['x', 'v1'], ['CLASS', 'v2']], [V('v0', 0), V('v1', 1), V('v2', 2)]))
    out.append(([['id', 'v0'], ['ID', 'v1'], ['lang', 'v2']], [V('v0', 0), V('v1', 1), V('v2', 2)]))
    # dict entries (keys lower-case; presence symbolic)
    D = lambda keys: ['d', 'dict', [[k, v, p] for k, v, p in keys]]   # noqa: E731
    out.append(([[None, 'd']], [V('v0', 0), D([['class', 'v0', 0], ['lang', 'en', 1]])]))
    out.append(([['title', 'v1'], [None, 'd']], [V('v0', 0), V('v1', 1), D([['title', 'v0', 0], ['lang', 'en', 1]])]))
    out.append(([[None, 'd'], ['lang', 'v1']], [V('v0', 0), V('v1', 1), D([['lang', 'v0', 0], ['rel', 'r', 1]])]))
    out.append(([[None, 'd']], [V('v0', 0), D([['checked', 'v0', 0], ['id', 'v0', 1]])]))
    out.append(([[None, 'd'], ['id', 'v1']], [V('v0', 0), V('v1', 1), D([['id', 'v0', 0], ['rel', 'r', 1]])]))
    return out


def plan(tier, seed):
    rnd = random.Random(seed)
    quick = tier == 'quick'
    jobs = []
    for si, static in enumerate(STATICS):
        for ei, (entries, vars_) in enumerate(entry_sets()):
            for bools in ('html', 'none_xml', 'empty', ['checked', 'class']):
                if quick:
                    # quick: every (static, entries) pair under one configuration (rotating), all
                    # configurations for the boolean-name entry sets
                    names = [n for n, _ in entries if n]
                    boolish = any(n and n.lower() in ('checked', 'disabled') for n in names) or ei == 11
                    if not boolish and bools != ('html', 'none_xml', 'empty', ['checked', 'class'])[(si + ei) % 4]:
                        continue
                jobs.append({'static': static, 'entries': entries, 'vars': vars_, 'bools': bools,
                             'label': 's%d/e%d/%s' % (si, ei, bools if isinstance(bools, str) else 'explicit')})
    # the same source under two boolean-attribute configurations through one on-disk module cache
    for first, second in (('html', 'empty'), ('empty', 'html'), (['checked'], 'html'), ('html', ['checked', 'class'])):
        jobs.append({'static': STATICS[4], 'entries': [['checked', 'v0'], ['disabled', 'v1']],
                     'vars': [['v0', 'val', 0], ['v1', 'val', 1]], 'bools': second, 'compiled_after': first,
                     'label': 'cached-after-%s/%s' % (first if isinstance(first, str) else 'explicit',
                                                     second if isinstance(second, str) else 'explicit')})
    # a file template re-cooked from the document after it had served a document of the other kind
    for first, second in (('xml', 'html'), ('html', 'none_xml')):
        jobs.append({'static': STATICS[4], 'entries': [['checked', 'v0'], ['disabled', 'v1']],
                     'vars': [['v0', 'val', 0], ['v1', 'val', 1]], 'bools': second, 'reloaded_after': first,
                     'label': 'reloaded-after-%s/%s' % (first, second)})
    base = {'static': STATICS[1], 'entries': [['CLASS', 'v0']], 'vars': [['v0', 'val', 0]], 'bools': 'html'}
    fam = dict(name='attribute_rendering', module=H, fn='H', jobs=jobs, timeout=300 if quick else 900, batch=4,
               vacuity=2, program_key='label',
               mutants=[{'name': 'case_sensitive_merge', 'cfg': base},
                        {'name': 'none_keeps_static', 'cfg': dict(base, entries=[['class', 'v0']])},
                        {'name': 'bool_empty_is_unconfigured',
                         'cfg': dict(base, static=[], entries=[['checked', 'v0']], bools='empty')}])
    sj = [{'shape': sh} for sh in ([0, 1, 2, 3], ['a 1', 0, 1, 2, 'b 2'], ['a 1;', 0, 1, 2], [0, ';', 1, ';', 2, 'x'],
                                   ['k string:x', 0, 1, 2, ' j', 3])]
    famS = dict(name='clause_splitting', module='checks.hC11', fn='split_texts', jobs=sj, timeout=600, vacuity=1,
                mutants=[{'name': 'split_regex_lookaround', 'cfg': sj[1]}])
    return dict(
        level='translation_validation',
        functions=['chameleon.tal:prepare_attributes', 'chameleon.tal:parse_attributes',
                   'chameleon.zpt.program:MacroProgram._create_attributes_nodes',
                   'chameleon.compiler:Compiler.visit_Attribute', 'chameleon.compiler:Compiler.visit_DictAttributes',
                   'chameleon.compiler:emit_bool', 'chameleon.compiler:emit_func_convert_and_escape',
                   'chameleon.zpt.template:PageTemplate.parse', 'chameleon.tal:split_parts'],
        bounds=('%d programs: %d static attribute lists (0-3 attributes, mixed case and quoting incl. unquoted, entities and ${...} in the text) '
                'x %d tal:attributes lists (named, other-case names, new names, the same name twice in other case among other names, boolean names, attribute dictionary '
                'first/last with symbolic key presence) x boolean configurations {HTML default, XML/none, explicit '
                'empty set, explicit set}, four of them compiled after the same source under another configuration through one on-disk module cache, two as file templates re-cooked after having served a document of the other kind (XML declaration or not); every dynamic value ranges over [None, default, "", 0, False, True, hostile '
                'str]; what a \';\'-separated argument splits into (tal.split_parts: \';;\' is a literal semicolon, single ones separate, runs of any length) on 5 shapes with 3-4 symbolic code points. Outside: more than 3 static attributes, ";;" escapes '
                '(C11 covers split_parts), the output position of names decided by a dictionary (known divergence, '
                'not asserted).' % (len(jobs), len(STATICS), len(entry_sets()))),
        assumptions=['expected attribute map computed from the property statement (later sources override earlier '
                     'ones in statement order); start tag read back by an independent scanner',
                     'names are compared case-insensitively; position asserted for static and named entries only'],
        families=[fam, famS],
    )
