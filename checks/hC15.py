"""C15 harnesses: the on-disk module cache is sound (key) and crash-safe (store protocol).

Store protocol: the real ModuleLoader.build / ModuleLoader.get, instrumented at statement level
(vlib.stepper), run against a model file system; crash step, flushed prefix and two-writer schedule are
symbolic.  Key: the real digest()/_get_module_name() with hashlib replaced by an injective recorder."""
from chameleon import loader as ld

from vlib import stepper as S

CFG = {}
STATE = {}
DIR = '/cache'
HEADER = b'# -*- coding: utf-8 -*-\n'


def _mutate(name):
    import inspect
    import textwrap
    if name in ('digest_basename_only', 'digest_drops_strict'):
        from chameleon import template as ct
        from chameleon.zpt import template as zt
        if name == 'digest_basename_only':
            src_fn = ct.BaseTemplate.digest
            code = textwrap.dedent(inspect.getsource(src_fn)).replace('filename = str(self.filename)',
                                                                      'filename = os.path.basename(str(self.filename))')
            tgt, attr = ct.BaseTemplate, 'digest'
        else:
            src_fn = zt.PageTemplate.digest
            code = textwrap.dedent(inspect.getsource(src_fn)).replace("        'strict',\n", '')
            tgt, attr = zt.PageTemplate, 'digest'
        assert code != textwrap.dedent(inspect.getsource(src_fn))
        ns = src_fn.__globals__      # the module itself: module_key() swaps hashlib there
        code = code.replace('super().digest(body, names)', 'BaseTemplate.digest(self, body, names)')
        exec('from __future__ import annotations\n' + code, ns)
        setattr(tgt, attr, ns['digest'])
        return
    src_fn = ld.ModuleLoader.build
    code = textwrap.dedent(inspect.getsource(src_fn))
    lines = code.split('\n')

    def indent_of(line):
        return line[:len(line) - len(line.lstrip())]
    out = []
    if name == 'temp_under_final_name':
        # the module is written under its final name (no write-then-rename)
        for ln in lines:
            out.append(ln)
            if "suffix='.tmp', dir=self.path)" in ln:
                ind = indent_of(ln)[:-4]
                out.append(ind + 'os.rename(fn, name)')
                out.append(ind + 'fn = name')
    elif name == 'rename_before_close':
        # the temporary file gets its final name before the buffered data is flushed and closed
        for ln in lines:
            if ln.strip() == 'temp.close()':
                out.append(indent_of(ln) + 'os.rename(fn, name)')
                out.append(ln)
            elif ln.strip() == 'os.rename(fn, name)':
                out.append(indent_of(ln) + 'pass')
            else:
                out.append(ln)
    else:
        raise KeyError(name)
    new = '\n'.join(out)
    assert new != code, name
    ns = dict(src_fn.__globals__)
    exec('from __future__ import annotations\n' + new, ns)
    ns['build'].__verif_source__ = new
    ld.ModuleLoader.build = ns['build']


class Loader(ld.ModuleLoader):
    def _load(self, base, filename):
        # the "later process" imports what is on disk under the looked-up name
        return {'loaded': S.CURRENT[0].fs.read(filename)}


def prepare(cfg):
    if cfg.get('mutant'):
        _mutate(cfg['mutant'])
    st = S.stepped(Loader, ['build'], S.MODEL_GLOBALS, owner={'build': ld.ModuleLoader})
    Loader.S_build = st['S_build']
    gt = S.stepped(Loader, ['get'], S.MODEL_GLOBALS, owner={'get': ld.ModuleLoader})
    Loader.S_get = gt['S_get']


def _res(ok):
    return (not ok) if CFG.get('negate') else ok


def lookup(fs, filename):
    """a fresh process looks the entry up with the real ModuleLoader.get"""
    reader = S.Proc(fs, 'r')
    S.CURRENT[0] = reader
    return S.run_to_end(Loader(DIR).S_get(filename))


def crash(k: int, cut: int) -> bool:
    """
    pre: 0 <= k <= 40 and 0 <= cut <= 64
    post: _
    """
    fs = S.ModelFS()
    w = S.Proc(fs, 'w')
    S.CURRENT[0] = w
    src = 'x = 1\n'
    full = HEADER + src.encode('utf-8')
    g = Loader(DIR).S_build(src, 'abc.py')
    st = S.advance(g, k)
    STATE.setdefault('keep', []).append(g)   # an abandoned generator must never run its finally blocks
    finished = st[0] != 'running'
    if not finished:
        w.crash(cut)
    got = lookup(fs, 'abc.py')
    ok = got is None or got == {'loaded': full}
    if finished:
        # no fault was injected: the store completes and the entry is there
        ok = ok and st[0] == 'done' and got == {'loaded': full}
    # nothing else in the directory may be found by an exact-name lookup of a module
    for name in fs.names:
        if name != DIR + '/abc.py' and name.endswith('.py'):
            ok = False
    return _res(ok)


def two_writers(s0: bool, s1: bool, s2: bool, s3: bool, s4: bool, s5: bool, s6: bool, s7: bool,
                s8: bool, s9: bool, s10: bool, s11: bool) -> bool:
    """
    pre: CFG.get('n', 12) >= 12 or not (s10 or s11)
    pre: CFG.get('n', 12) >= 10 or not (s8 or s9)
    post: _
    """
    fs = S.ModelFS()
    pa, pb = S.Proc(fs, 'a'), S.Proc(fs, 'b')
    srca, srcb = 'x = 1  # A\n', 'x = 2  # BB\n'
    fulla, fullb = HEADER + srca.encode(), HEADER + srcb.encode()
    S.CURRENT[0] = pa
    ga = Loader(DIR).S_build(srca, 'abc.py')
    S.CURRENT[0] = pb
    gb = Loader(DIR).S_build(srcb, 'abc.py')
    done = {'a': False, 'b': False}
    ok = True

    def move(proc, gen, key):
        # advance one *file-system event* of that process (other statements are process-local)
        S.CURRENT[0] = proc
        start = fs.events
        while fs.events == start:
            r = S.advance(gen, 1)
            if r[0] != 'running':
                done[key] = True
                return
    for choice in (s0, s1, s2, s3, s4, s5, s6, s7, s8, s9, s10, s11):
        if choice and not done['a']:
            move(pa, ga, 'a')
        elif not done['b']:
            move(pb, gb, 'b')
        elif not done['a']:
            move(pa, ga, 'a')
        got = lookup(fs, 'abc.py')
        if not (got is None or got == {'loaded': fulla} or got == {'loaded': fullb}):
            ok = False
    STATE.setdefault('keep', []).append((ga, gb))
    return _res(ok)


# ---- key soundness -----------------------------------------------------------------------------------
class Digest:
    """injective stand-in for a hash: the digest *is* the sequence of updates"""
    registry = []

    def __init__(self, first=None, stream=()):
        self.stream = tuple(stream) + ((first,) if first is not None else ())

    def update(self, data):
        self.stream = self.stream + (data,)

    def copy(self):
        return Digest(None, self.stream)

    def hexdigest(self):
        return DigestValue(self.stream)


class DigestValue:
    def __init__(self, stream, prefix=''):
        self.stream, self.prefix = stream, prefix

    def __getitem__(self, i):          # truncation keeps the model injective
        return self

    def encode(self, *a):
        return self

    def __radd__(self, other):
        return DigestValue(self.stream, other + self.prefix)

    def __str__(self):
        DigestValue.last = self
        return '\x00DIGEST\x00'

    def __format__(self, spec):
        return str(self)


class FakeHashlib:
    @staticmethod
    def sha1(data=None):
        return Digest(data)

    @staticmethod
    def sha256(data=None):
        return Digest(data)


OPTIONS_BOOL = ['trim_attribute_space', 'implicit_i18n_translate', 'strict', 'enable_data_attributes',
                'enable_comment_interpolation', 'restricted_namespace']
OPTIONS_OTHER = {'boolean_attributes': [None, ('checked',), ()], 'implicit_i18n_attributes': [(), ('alt',)],
                 'default_expression': ['python', 'string'], 'mode': ['xml', 'text']}


def flatten(x):
    if isinstance(x, DigestValue):
        return ('D', x.prefix, tuple(flatten(y) for y in x.stream))
    if isinstance(x, (tuple, list)):
        return tuple(flatten(y) for y in x)
    return x


def module_key(cls_index, filename, body, opts):
    from chameleon import template as ct
    from chameleon.zpt import template as zt
    classes = [zt.PageTemplate, zt.PageTextTemplate, zt.PageTemplateFile, zt.PageTextTemplateFile]
    cls = classes[cls_index]
    inst = object.__new__(cls)
    inst.__dict__.update(opts)
    if filename is not None:
        inst.__dict__['filename'] = filename
    real_hashlib, real_sha256, real_pkg = ct.hashlib, zt.sha256, ct._pkg_digest
    # the package-version part of the key is one fixed update (computing it walks all installed distributions)
    ct.hashlib, zt.sha256, ct._pkg_digest = FakeHashlib, FakeHashlib.sha256, Digest('PKG-VERSIONS')
    try:
        names = ('macros', 'nothing', 'template')
        d = inst.digest(body, names)
        fn = inst._get_module_name(d)
        last = DigestValue.last
    finally:
        ct.hashlib, zt.sha256, ct._pkg_digest = real_hashlib, real_sha256, real_pkg
    return (fn, flatten(last))


BODIES = ['<p>a</p>', '<p>b</p>', '<p>a</p> ']
# XML documents keep their line endings: documents that differ only there compile to different modules
BODIES_XML = ['<?xml version="1.0"?>\n<p>a\n</p>', '<?xml version="1.0"?>\n<p>a\r\n</p>', '<?xml version="1.0"?>\r\n<p>a\n</p>']


def pick(table, idx):
    for j in range(len(table)):
        if idx == j:
            return table[j]
    raise IndexError(idx)


def key(o: int, a1: int, a2: int) -> bool:
    """
    pre: 0 <= o < 10 and 0 <= a1 < 4 and 0 <= a2 < 4
    post: _
    """
    # two configurations: same class / file name / body unless stated; they differ in exactly one
    # compile-relevant item, so their module file names must differ
    mode = CFG.get('mode', 'option')
    body1 = body2 = BODIES[0]
    k1 = k2 = 0
    f1 = f2 = None
    o1, o2 = {}, {}
    if a1 == a2:
        return _res(True)
    if mode == 'option':
        names = OPTIONS_BOOL + sorted(OPTIONS_OTHER)
        name = pick(names, o)
        if name in OPTIONS_OTHER:
            vals = OPTIONS_OTHER[name]
            if a1 >= len(vals) or a2 >= len(vals):
                return _res(True)
            o1[name], o2[name] = pick(vals, a1), pick(vals, a2)
        else:
            if a1 > 1 or a2 > 1:
                return _res(True)
            o1[name], o2[name] = (a1 == 1), (a2 == 1)
    elif mode == 'body':
        if a1 >= len(BODIES) or a2 >= len(BODIES):
            return _res(True)
        body1, body2 = pick(BODIES, a1), pick(BODIES, a2)
    elif mode == 'body_xml':
        if a1 >= len(BODIES_XML) or a2 >= len(BODIES_XML):
            return _res(True)
        body1, body2 = pick(BODIES_XML, a1), pick(BODIES_XML, a2)
    elif mode == 'class':
        k1, k2 = pick([0, 1, 2, 3], a1), pick([0, 1, 2, 3], a2)
        f1 = f2 = '/a/site/index.pt' if (k1 >= 2 or k2 >= 2) else None
        if (k1 >= 2) != (k2 >= 2):
            return _res(True)      # a string template and a file template never share a file name pattern
    elif mode == 'filename':
        k1 = k2 = 2
        files = ['/a/site_a/index.pt', '/a/site_b/index.pt', '/a/site_a/other.pt', '/a/site_a/index.html']
        f1, f2 = pick(files, a1), pick(files, a2)
    a = module_key(k1, f1, body1, o1)
    b = module_key(k2, f2, body2, o2)
    return _res(a != b)


def explain(cfg, *args):
    return {'args': list(args), 'cfg': {k: v for k, v in cfg.items()}}
