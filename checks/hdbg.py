from checks import hC12 as h
from crosshair.core import deep_realize, realize
from crosshair.tracers import NoTracing
CFG = {}
def prepare(cfg):
    h.CFG.clear(); h.CFG.update({'template': 'macro-chain'}); h.prepare(h.CFG)
def d1(a: int) -> bool:
    """
    pre: a == 0
    post: _
    """
    import traceback
    try:
        r = h.check(0, 0, a)
    except BaseException as e:
        with NoTracing():
            print('EXC', traceback.format_exc()[-1800:])
        raise
    if not r:
        with NoTracing():
            print('EXPL', deep_realize(h.explain(h.CFG, 0, 0, a)))
    return r
