from checks import hC17 as h
from crosshair.tracers import NoTracing
CFG = {}
def prepare(cfg):
    h.CFG.clear(); h.CFG.update({'has_enc': True, 'later': False, 'q': '"'}); h.prepare({})
def d1(s1: int, s3: int, n0: int, n1: int) -> bool:
    """
    pre: s1 in (0x20, 0x09, 0x0D, 0x0A) and s3 in (0x20, 0x09, 0x0D, 0x0A, 0)
    pre: 65 <= n0 <= 122 and (n0 <= 90 or n0 >= 97)
    pre: n1 in (45, 46, 95) or 48 <= n1 <= 57 or 65 <= n1 <= 90 or 97 <= n1 <= 122
    post: _
    """
    try:
        return h.xml_decl(s1, s3, n0, n1)
    except BaseException as e:
        with NoTracing():
            import traceback
            CNT['ABORT %s %s' % (type(e).__name__, ''.join(traceback.format_tb(e.__traceback__)[-3:])[-600:])] += 1
        raise

import traceback, collections
from crosshair import statespace as SS
CNT = collections.Counter()
_of = SS.StateSpace.find_model_value
def _f(self, expr, *a, **k):
    with NoTracing():
        st = traceback.extract_stack()[-12:-1]
        CNT['FMV ' + str(expr)[:60] + ' @ ' + ' < '.join('%s:%d' % (f.name, f.lineno) for f in reversed(st))[:500]] += 1
    return _of(self, expr, *a, **k)
SS.StateSpace.find_model_value = _f
import os
_oe = os._exit
def _exit(c):
    with open('/tmp/dbg.log','a') as f:
        for k, v in CNT.most_common(12): f.write('%d  %s\n' % (v, k))
    _oe(c)
os._exit = _exit
