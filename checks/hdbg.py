from checks import hG as h
from crosshair.core import deep_realize, realize
from crosshair.tracers import NoTracing
import importlib
CFG = {}
def prepare(cfg):
    plan = importlib.import_module('checks.C05').plan('quick', 0)
    c = [c for c in plan['families'][0]['jobs'] if c['label'] == 'a:repeat'][0]
    h.CFG.clear(); h.CFG.update(c); h.prepare(h.CFG)
def d1(i0: int, i1: int) -> bool:
    """
    pre: 0 <= i0 < 3 and 0 <= i1 < 5
    post: _
    """
    return h.agree(h.bind((i0, i1, 0, 0, 0, 0), (False,)*6))

import traceback, collections, atexit
from crosshair import statespace as SS
_orig = SS.StateSpace.choose_possible
CNT = collections.Counter()
def _r(self, expr, *a, **k):
    with NoTracing():
        st = traceback.extract_stack()[-9:-1]
        key = str(expr)[:60].replace('\n',' ') + ' @ ' + ' < '.join('%s:%d' % (f.name, f.lineno) for f in reversed(st) )[:300]
        CNT[key] += 1
    return _orig(self, expr, *a, **k)
SS.StateSpace.choose_possible = _r
import os
def dump():
    with open('/tmp/dbg.log','a') as f:
        for k, v in CNT.most_common(30): f.write('%d  %s\n' % (v, k))
_oe = os._exit
def _exit(c):
    dump(); _oe(c)
os._exit = _exit

from crosshair import core as CC
_osc = CC.consider_shortcircuit
def _csc(fn, sig, bound, subconditions, allow_interpretation):
    r = _osc(fn, sig, bound, subconditions, allow_interpretation)
    with NoTracing():
        CNT['SC %s -> %r' % (getattr(fn, '__qualname__', fn), r)] += 1
    return r
CC.consider_shortcircuit = _csc
