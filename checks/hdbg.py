from checks import hG as h
from crosshair.core import deep_realize, realize
from crosshair.tracers import NoTracing
import importlib
CFG = {}
def prepare(cfg):
    plan = importlib.import_module('checks.C04').plan('quick', 0)
    c = [c for c in plan['families'][0]['jobs'] if c['label'] == 'py:lambda-builtin-param'][0]
    h.CFG.clear(); h.CFG.update(c); h.prepare(h.CFG)
def d1(i0: int) -> bool:
    """
    pre: 0 <= i0 < 1
    post: _
    """
    b = h.bind((i0, 0, 0, 0, 0, 0), (False,)*6)
    e = h.run_engine(b)
    import traceback
    from vlib import refsem
    ref = refsem.Ref(h.DEFAULT_MARKER, h.STATE['codes'], helpers={'rec': h.rec})
    b2 = dict(b); b2.pop('__outs__'); b2.pop('__vals__')
    try:
        ref.render(h.CFG['prog'], refsem.RScope(b2), [])
    except Exception:
        with NoTracing():
            print(traceback.format_exc()[-1500:])
    r = h.run_ref(b)
    with NoTracing():
        print('ENG', deep_realize(e)); print('REF', deep_realize(r[:3]))
    return True
