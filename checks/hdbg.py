from checks import hC03 as h
from crosshair.core import deep_realize, realize
from crosshair.tracers import NoTracing
import time
CFG = {}
def d7(c0: int) -> bool:
    """
    pre: 0 <= c0 < 0x110000
    post: _
    """
    s = h.build(['<a k="v">t</a>', 0], (c0,))
    return h.verbatim_ok(s)

import traceback, collections, atexit
from crosshair import statespace as SS
_orig = SS.StateSpace.choose_possible
CNT = collections.Counter()
def _r(self, expr, *a, **k):
    with NoTracing():
        st = traceback.extract_stack()[-12:-1]
        key = str(expr)[:80] + ' @ ' + ' < '.join('%s:%d' % (f.name, f.lineno) for f in reversed(st) if 'crosshair' in f.filename or 'chameleon' in f.filename or 'checks' in f.filename)[:400]
        CNT[key] += 1
    return _orig(self, expr, *a, **k)
SS.StateSpace.choose_possible = _r
_of = SS.StateSpace.find_model_value
def _f(self, expr, *a, **k):
    with NoTracing():
        st = traceback.extract_stack()[-14:-1]
        key = 'FMV ' + str(expr)[:80] + ' @ ' + ' < '.join('%s:%d' % (f.name, f.lineno) for f in reversed(st))[:600]
        CNT[key] += 1
    return _of(self, expr, *a, **k)
SS.StateSpace.find_model_value = _f
import os
def dump():
    with open('/tmp/dbg.log','a') as f:
        for k, v in CNT.most_common(25): f.write('%d  %s\n' % (v, k))
_oe = os._exit
def _exit(c):
    dump(); _oe(c)
os._exit = _exit

from crosshair.libimpl import relib as RL
_oi = RL.ReUnhandled.__init__
def _ni(self, *a):
    with NoTracing():
        CNT['UNHANDLED ' + repr(a)[:300]] += 1
    _oi(self, *a)
RL.ReUnhandled.__init__ = _ni
