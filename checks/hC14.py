"""C14 harnesses: concurrent use of shared file templates (all statement-level interleavings of two
threads within a bounded schedule, on the real cook_check / cook instrumented by vlib.stepper) and
determinism / no state carried from one render to the next (compiled templates, symbolic bindings)."""
from chameleon import PageTemplate
from chameleon import template as ct

from vlib import stepper as S

CFG = {}
STATE = {}
FILE = {'mtime': 1, 'body': 'v1'}


def _mutate(name):
    import inspect
    import textwrap
    if name in ('cooked_flag_early', 'stale_window'):
        src_fn = ct.BaseTemplateFile.cook_check
        code = textwrap.dedent(inspect.getsource(src_fn))
        if name == 'cooked_flag_early':
            new = code.replace('        body = self.read()', '        self._cooked = True\n        body = self.read()')
        else:
            new = code.replace('            self._cooked = False\n            self._v_last_read = mtime',
                               '            self._v_last_read = mtime\n            self._cooked = False')
        assert new != code, name
        ns = dict(src_fn.__globals__)
        exec('from __future__ import annotations\n' + new, ns)
        ns['cook_check'].__verif_source__ = new
        ct.BaseTemplateFile.cook_check = ns['cook_check']
    elif name == 'flag_before_publish':
        src_fn = ct.BaseTemplate.cook
        code = textwrap.dedent(inspect.getsource(src_fn))
        new = code.replace('    for name, function in functions.items():', '    self._cooked = True\n    for name, function in functions.items():')
        assert new != code
        ns = dict(src_fn.__globals__)
        exec('from __future__ import annotations\n' + new, ns)
        ns['cook'].__verif_source__ = new
        ct.BaseTemplate.cook = ns['cook']
    elif name == 'shared_repeat_dict':
        from chameleon import tal
        from chameleon.zpt import template as zt
        shared = {}
        real = tal.RepeatDict.__init__

        def __init__(self, d=None):
            real(self, shared)       # every render of every template shares one repeat state
        tal.RepeatDict.__init__ = __init__
    elif name == 'forget_before_publish':
        src_fn = ct.BaseTemplate.cook
        code = textwrap.dedent(inspect.getsource(src_fn))
        a = code.index('    for name, function in functions.items():')
        b = code.index('    # Forget the macros')
        c = code.index('    self._cooked = True')
        new = code[:a] + code[b:c].replace("and name[1:] not in functions", "") + code[a:b] + code[c:]
        assert new != code
        ns = dict(src_fn.__globals__)
        exec('from __future__ import annotations\n' + new, ns)
        ns['cook'].__verif_source__ = new
        ct.BaseTemplate.cook = ns['cook']
    else:
        raise KeyError(name)


class FT(ct.BaseTemplateFile):
    """file template whose environment is a stub: mtime()/read() answer from FILE, the compile step returns
    one render function per version (tagged with the body it was compiled from)"""
    builtins = {'b': 1}
    auto_reload = True

    def __init__(self):
        self.__dict__['filename'] = 'f.pt'
        self._v_last_read = None
        self._cooked = False

    def mtime(self):
        return FILE['mtime']

    def read(self):
        return FILE['body']

    def digest(self, body, names):
        return 'd'

    def _cook(self, body, digest, names):
        def init(*builtins):
            return {'render': (lambda: body), 'render_m': (lambda: body + ':m')}
        return {ct.PROGRAM_NAME: init}


def prepare(cfg):
    if cfg.get('loader'):
        if cfg.get('mutant'):
            _mutate_loader(cfg['mutant'])
        STATE['gen_load'] = _loader_generators()
        return
    if cfg.get('mutant'):
        _mutate(cfg['mutant'])
    st = S.stepped(FT, ['cook_check', 'cook'], {}, owner={'cook_check': ct.BaseTemplateFile, 'cook': ct.BaseTemplate})
    FT.S_cook_check = st['S_cook_check']
    FT.S_cook = st['S_cook']
    STATE['tpls'] = {}
    for name, text in DET_TEMPLATES.items():
        opts = DET_OPTIONS.get(name, {})
        STATE['tpls'][name] = (PageTemplate(text, **opts), PageTemplate(text, **opts))


def _res(ok):
    return (not ok) if CFG.get('negate') else ok


def use(t, what):
    """what a thread does with the shared template: render, or a macro lookup"""
    yield from t.S_cook_check()
    yield ('use', 0)         # Macros.__getitem__ / render(): the lookup is a statement of its own
    if what == 'macro':
        return t._render_m()
    return t._render()


def threads(s0: bool, s1: bool, s2: bool, s3: bool, s4: bool, s5: bool, s6: bool, s7: bool, s8: bool,
            s9: bool, s10: bool, s11: bool, s12: bool, s13: bool, s14: bool, s15: bool) -> bool:
    """
    pre: CFG.get('k', 16) >= 16 or not (s14 or s15)
    pre: CFG.get('k', 16) >= 14 or not (s12 or s13)
    pre: CFG.get('k', 16) >= 12 or not (s10 or s11)
    pre: CFG.get('k', 16) >= 10 or not (s8 or s9)
    pre: CFG.get('k', 16) >= 8 or not (s6 or s7)
    post: _
    """
    scenario = CFG.get('scenario', 'changed')
    t = FT()
    if scenario == 'fresh':
        FILE['mtime'], FILE['body'] = 1, 'v1'
        want = 'v1'
    else:
        # compiled from version 1 earlier; the file has changed since (before both threads start)
        t._v_last_read = 1
        t._cooked = True
        t._render = lambda: 'v1'
        t._render_m = lambda: 'v1:m'
        FILE['mtime'], FILE['body'] = 2, 'v2'
        want = 'v2'
    ga = use(t, 'render')
    gb = use(t, CFG.get('second', 'render'))
    res = {}
    lead = CFG.get('lead', 0)

    def step(key, gen):
        if key in res:
            return
        r = S.advance(gen, 1)
        if r[0] == 'done':
            res[key] = ('ok', r[1])
        elif r[0] == 'raised':
            res[key] = ('exc', type(r[1]).__name__)
    for _ in range(lead):            # thread a runs ahead before the symbolic part of the schedule
        step('a', ga)
    if CFG.get('lead_b') == 'use':            # ... then thread b runs up to its look-up (check and compilation done)
        while 'b' not in res:
            try:
                if next(gb) == ('use', 0):
                    break
            except StopIteration as stop:
                res['b'] = ('ok', stop.value)
            except Exception as exc:
                res['b'] = ('exc', type(exc).__name__)
    for choice in (s0, s1, s2, s3, s4, s5, s6, s7, s8, s9, s10, s11, s12, s13, s14, s15):
        if choice:
            step('a', ga)
        else:
            step('b', gb)
    # whatever is left runs to completion, one thread after the other
    while 'a' not in res:
        step('a', ga)
    while 'b' not in res:
        step('b', gb)
    wb = want + ':m' if CFG.get('second') == 'macro' else want
    ok = res['a'] == ('ok', want) and res['b'] == ('ok', wb)
    return _res(ok)


# ---- two threads through a shared loader ---------------------------------------------------------------
class LoadedStub:
    """stands for the template class: what a thread gets back is identified by the file it was made for"""
    made = []

    def __init__(self, spec, search_path=None, package_name=None, **kw):
        self.spec = spec
        LoadedStub.made.append(self)

    def render(self):
        return 'rendered:' + self.spec


def _loader_generators():
    from chameleon import loader as ld
    wrapper = inspect_static(ld.TemplateLoader, 'load')
    raw = wrapper.__closure__[0].cell_contents
    exists = {'/sp/one/a.pt': False, '/sp/two/a.pt': True, '/sp/one/b.pt': True, '/sp/two/b.pt': True}

    class _P:
        def __getattr__(self, n):
            import os
            return getattr(os.path, n)

        @staticmethod
        def exists(p):
            return exists.get(p, False)

    class _OS:
        path = _P()
    ld.os = _OS()          # native calls (the check after the threads) see the same model directory
    s_raw = S.stepped_function(raw, 'load_raw', {'os': ld.os})
    s_wrap = S.stepped_function(wrapper, 'load', {'S_load_raw': s_raw, 'MISSING': ld}, calls={'func': 'S_load_raw'})
    return s_wrap


def inspect_static(cls, name):
    import inspect
    fn = inspect.getattr_static(cls, name)
    return getattr(fn, '__func__', fn)


def _mutate_loader(name):
    from chameleon import loader as ld
    if name == 'registry_placeholder':
        # "claim" the registry slot before the template exists
        def cache(func):
            def load(self, *args, **kwargs):
                template = self.registry.get(args, ld)
                if template is ld:
                    self.registry[args] = None
                    self.registry[args] = template = func(self, *args, **kwargs)
                return template
            load.__verif_source__ = '''def load(self, *args, **kwargs):
    template = self.registry.get(args, MISSING)
    if template is MISSING:
        self.registry[args] = None
        self.registry[args] = template = func(self, *args, **kwargs)
    return template
'''
            return load
        ld.MISSING = ld
        raw = ld.TemplateLoader.load.__closure__[0].cell_contents
        ld.TemplateLoader.load = cache(raw)
    else:
        raise KeyError(name)


def use_loader(gen_load, loader, spec):
    t = yield from gen_load(loader, spec, LoadedStub)
    return t.render()


def loader_threads(s0: bool, s1: bool, s2: bool, s3: bool, s4: bool, s5: bool, s6: bool, s7: bool, s8: bool,
                   s9: bool, s10: bool, s11: bool, s12: bool, s13: bool, s14: bool, s15: bool) -> bool:
    """
    pre: CFG.get('k', 16) >= 16 or not (s14 or s15)
    pre: CFG.get('k', 16) >= 14 or not (s12 or s13)
    pre: CFG.get('k', 16) >= 12 or not (s10 or s11)
    post: _
    """
    from chameleon import loader as ld
    gen_load = STATE['gen_load']
    loader = ld.TemplateLoader(search_path=['/sp/one', '/sp/two'])
    same = CFG.get('same', True)
    specs = ('a.pt', 'a.pt') if same else ('a.pt', 'b.pt')
    want = ('rendered:/sp/two/a.pt', 'rendered:/sp/two/a.pt' if same else 'rendered:/sp/one/b.pt')
    ga = use_loader(gen_load, loader, specs[0])
    gb = use_loader(gen_load, loader, specs[1])
    res = {}

    def step(key, gen):
        if key in res:
            return
        r = S.advance(gen, 1)
        if r[0] == 'done':
            res[key] = ('ok', r[1])
        elif r[0] == 'raised':
            res[key] = ('exc', type(r[1]).__name__)
    for _ in range(CFG.get('lead', 0)):
        step('a', ga)
    for choice in (s0, s1, s2, s3, s4, s5, s6, s7, s8, s9, s10, s11, s12, s13, s14, s15):
        if choice:
            step('a', ga)
        else:
            step('b', gb)
    while 'a' not in res:
        step('a', ga)
    while 'b' not in res:
        step('b', gb)
    ok = res['a'] == ('ok', want[0]) and res['b'] == ('ok', want[1])
    # afterwards the loader serves one instance per name
    if ok:
        t1 = loader.load(specs[0], LoadedStub)
        ok = t1 is not None and t1 is loader.load(specs[0], LoadedStub)
    return _res(ok)


# ---- determinism and no carried state -----------------------------------------------------------------
DET_TEMPLATES = {
    'globals-repeat': ('<div tal:define="global g v">${repeat.x.number | "norepeat"}|${h | "nh0"}|${g}'
                       '<i tal:repeat="x range(n)">${x}${repeat.x.number}</i>'
                       '<b tal:condition="c" tal:define="global h 7">${h}</b>|${h | "nh"}|'
                       '${repeat.x.number | "norepeat"}</div>'),
    'macro-code': ('<div><p metal:define-macro="m" tal:define="global k v + 1">${k}</p>'
                   '<?python z = v * 2 ?>${z}<u metal:use-macro="macros[\'m\']" />|${k}</div>'),
    'mutable-args': ('<div tal:define="dummy lst.append(v) if c else None; d2 dct.setdefault(\'k\', v)">'
                     '${len(lst)}|${sorted(dct)}</div>'),
}


DET_TEMPLATES['render-keywords'] = ('<div i18n:domain="d"><p i18n:translate="">Hello</p><img alt="Logo" i18n:attributes="alt" />'
                                    '${msg}|${v}</div>')
# options under which render() builds per-call wrappers around its keyword arguments
DET_OPTIONS = {'render-keywords': {'encoding': 'utf-8'}}


class _Msg:
    def __str__(self):
        return 'm'


def _translator(k):
    def translate(msgid, domain=None, mapping=None, context=None, target_language=None, default=None):
        return 'T%d(%s|%s|%s)' % (k, domain, target_language, msgid if isinstance(msgid, str) else 'obj')
    return translate


def _expected_keywords(v, k, c):
    lang = 'fr' if c else None
    t = lambda m: 'T%d(d|%s|%s)' % (k, lang, m)       # noqa: E731
    return '<div><p>%s</p><img alt="%s" />%s|%s</div>' % (t('Hello'), t('Logo'), t('obj'), v)


def determinism(v: int, n: int, c: bool, v2: int, n2: int, c2: bool) -> bool:
    """
    pre: 0 <= n < 3 and 0 <= n2 < 3 and -2 <= v <= 2 and -2 <= v2 <= 2
    post: _
    """
    name = CFG['template']
    ta, tb = STATE['tpls'][name]

    def args(v, n, c):
        if name == 'render-keywords':
            # the translation function, the target language and the encoding are arguments of each call
            return dict(v=v, msg=_Msg(), translate=_translator(pick3(n)), target_language='fr' if c else None)
        return dict(v=v, n=pick3(n), c=c, lst=[1], dct={'a': 1})
    # repeated calls on one instance, and a separately compiled instance
    r1 = ta.render(**args(v, n, c))
    r2 = ta.render(**args(v, n, c))
    r3 = tb.render(**args(v, n, c))
    ok = r1 == r2 and r1 == r3
    # nothing of an earlier render (other arguments) is visible in the next one
    other = ta.render(**args(v2, n2, c2))
    r4 = ta.render(**args(v, n, c))
    ok = ok and r4 == r1
    if name == 'render-keywords':
        # ... and each call used the translation function and language it was given
        ok = ok and r1 == _expected_keywords(v, pick3(n), c) and other == _expected_keywords(v2, pick3(n2), c2)
    if name == 'mutable-args':
        pass
    return _res(ok)


def pick3(n):
    if n == 0:
        return 0
    if n == 1:
        return 1
    return 2


def explain(cfg, *args):
    return {'args': list(args), 'cfg': dict(cfg)}
