"""C17 harness: byte input is decoded by BOM / XML declaration / meta charset / default, then acts as str."""
import codecs

from chameleon import utils as cu

CFG = {}
WS = (0x20, 0x09, 0x0D, 0x0A)


def pick(table, idx):
    for j in range(len(table)):
        if idx == j:
            return table[j]
    raise IndexError(idx)


def _mutate(name):
    import re
    if name == 'encname_no_underscore':
        cu.RE_ENCODING = re.compile(br'encoding\s*=\s*(?:"|\')(?P<encoding>[A-Z][A-Z0-9.\-]*)(?:"|\')', re.IGNORECASE)
    elif name == 'search_whole_document':
        def read_xml_encoding(body):
            if body.startswith(b'<?xml'):
                match = cu.RE_ENCODING.search(body)
                if match is not None:
                    return match.group('encoding').decode('ascii')
            return None
        cu.read_xml_encoding = read_xml_encoding
    elif name == 'bom_kept':
        def read_bytes(body, default_encoding):
            for bom, prefix, encoding in cu._xml_prefixes:
                if body.startswith(bom):
                    document = body.decode(encoding)
                    return document, encoding, "text/xml" if document.startswith("<?xml") else None
                if prefix != cu.encode_string('<?xml') and body.startswith(prefix):
                    return body.decode(encoding), encoding, "text/xml"
            if body.startswith(cu._xml_decl):
                content_type = "text/xml"
                encoding = cu.read_xml_encoding(body) or default_encoding
            else:
                content_type, encoding = cu.detect_encoding(body, default_encoding)
            return body.decode(encoding), encoding, content_type
        cu.read_bytes = read_bytes
    elif name == 'meta_before_declaration':
        real = cu.read_bytes

        def read_bytes(body, default_encoding):
            ct, enc = cu.detect_encoding(body, None)
            if enc is not None and not any(body.startswith(b) for b, p, e in cu._xml_prefixes):
                return body.decode(enc), enc, 'text/xml' if body.startswith(b'<?xml') else ct
            return real(body, default_encoding)
        cu.read_bytes = read_bytes
    elif name == 'booleans_stick':
        from chameleon.zpt import template as zt
        import inspect
        import textwrap
        src_fn = zt.PageTemplate.parse
        code = textwrap.dedent(inspect.getsource(src_fn)).replace('boolean_attributes = BOOLEAN_HTML_ATTRIBUTES',
                                                                  'boolean_attributes = self.boolean_attributes = BOOLEAN_HTML_ATTRIBUTES')
        assert code != textwrap.dedent(inspect.getsource(src_fn))
        ns = dict(src_fn.__globals__)
        exec(code, ns)
        zt.PageTemplate.parse = ns['parse']
    else:
        raise KeyError(name)


def strify(fn, extra):
    """str-domain twin of a bytes-processing function, regenerated from its *current source*: bytes
    literals become str literals, x.decode(...) becomes x, and the names in ``extra`` are rebound (the bytes
    regular expression is recompiled from its live pattern as a str pattern).  CrossHair's symbolic
    ``bytes`` are an order of magnitude slower than its symbolic ``str``; the statements executed are the
    function's own."""
    import ast
    import inspect
    import textwrap

    class T(ast.NodeTransformer):
        def visit_Constant(self, node):
            if isinstance(node.value, bytes):
                return ast.copy_location(ast.Constant(node.value.decode('latin-1')), node)
            return node

        def visit_Call(self, node):
            self.generic_visit(node)
            if isinstance(node.func, ast.Attribute) and node.func.attr == 'decode':
                return node.func.value
            return node
    tree = ast.parse(textwrap.dedent(inspect.getsource(fn)))
    tree = T().visit(tree)
    for n in ast.walk(tree):
        if isinstance(n, ast.FunctionDef):
            n.returns = None
            for a in n.args.args:
                a.annotation = None
    ast.fix_missing_locations(tree)
    ns = dict(fn.__globals__)
    ns.update(extra)
    exec(compile(tree, '<strified %s>' % fn.__name__, 'exec'), ns)
    return ns[fn.__name__]


def prepare(cfg):
    import re
    if cfg.get('mutant'):
        _mutate(cfg['mutant'])
    pat = cu.RE_ENCODING
    STATE['re_encoding_s'] = re.compile(pat.pattern.decode('latin-1'), pat.flags & ~re.UNICODE | re.ASCII)
    STATE['read_xml_encoding_s'] = strify(cu.read_xml_encoding, {'RE_ENCODING': STATE['re_encoding_s']})
    from chameleon import PageTemplate
    xml_bytes = XML_DOC.encode('latin-1')
    t = PageTemplate(HTML_DOC)
    t.write(xml_bytes)
    STATE['recooked_xml'] = t
    STATE['fresh_xml'] = PageTemplate(xml_bytes)
    t2 = PageTemplate(xml_bytes)
    t2.write(HTML_DOC)
    STATE['recooked_html'] = t2
    STATE['fresh_html'] = PageTemplate(HTML_DOC)
    sym = cfg.get('sym', '')
    NB[0] = 4 if 's' in sym else 1
    NB[1] = 5 if 'e' in sym else 1
    NB[2] = len(LETTERS) if 'a' in sym else 1
    NB[3] = len(ENCCH) if 'n' in sym else 1


STATE = {}


def _res(ok):
    return (not ok) if CFG.get('negate') else ok


NAME0 = b'ABCXYZabcxyz'
NAME1 = b'AZaz09._-'


NB = [1, 1, 1, 1]     # exclusive bounds of the four index parameters (set per job by prepare)
WS4 = (0x20, 0x09, 0x0D, 0x0A)
WS5 = (0, 0x20, 0x09, 0x0D, 0x0A)
LETTERS = 'iABYZabyz'
ENCCH = '-._09AZaz5Mm'


def xml_decl(s1: int, s3: int, n0: int, n1: int) -> bool:
    """
    pre: 0 <= s1 < NB[0] and 0 <= s3 < NB[1] and 0 <= n0 < NB[2] and 0 <= n1 < NB[3]
    post: _
    """
    has_enc = CFG.get('has_enc', True)
    later = CFG.get('later', False)
    q = CFG.get('q', '"')
    ws = chr(pick(WS4, s1))
    w3 = pick(WS5, s3)
    name = pick(LETTERS, n0) + 'so' + pick(ENCCH, n1) + '8'
    body = '<?xml' + ws + 'version="1.0"'
    if has_enc:
        eq = (chr(w3) if w3 else '') + '=' + (chr(w3) if w3 else '')
        body = body + ws + 'encoding' + eq + q + name + q
    if CFG.get('standalone'):
        body = body + ' standalone="yes"'
    body = body + (ws if CFG.get('trailing_space') else '') + '?>'
    body = body + ('<a x="1" encoding="zz-9"/>' if later else '<a/>')
    got = STATE['read_xml_encoding_s'](body)
    want = name if has_enc else None
    return _res(got == want)


def xml_decl_bytes_twin(has_enc: bool, later: bool) -> bool:
    """
    post: _
    """
    # pinned twin of the str-domain harness on the real bytes function (concrete representative)
    name = b'Iso-8859.1_8'
    body = b'<?xml\tversion="1.0"' + (b"\nencoding = '" + name + b"'" if has_enc else b'') + b' ?>'
    body = body + (b'<a x="1" encoding="zz-9"/>' if later else b'<a/>')
    got = cu.read_xml_encoding(body)
    return _res(got == (name.decode('ascii') if has_enc else None))


TEXT = '<a k="v">caf\xe9 Ж</a>'
DECL_NOENC = '<?xml version="1.0"?>\n'
ROWS = [  # (bom, codec used to encode the rest, acceptable reported encodings)
    (b'', None, ()),
    (codecs.BOM_UTF8, 'utf-8', ('utf-8-sig', 'utf-8')),
    (codecs.BOM_UTF16_LE, 'utf-16-le', ('utf-16', 'utf-16-le')),
    (codecs.BOM_UTF16_BE, 'utf-16-be', ('utf-16', 'utf-16-be')),
    (codecs.BOM_UTF32_LE, 'utf-32-le', ('utf-32', 'utf-32-le')),
    (codecs.BOM_UTF32_BE, 'utf-32-be', ('utf-32', 'utf-32-be')),
]
NOBOM_PREFIX = ['utf-16-le', 'utf-16-be', 'utf-32-le', 'utf-32-be']


def order(row: int, decl: int, meta: bool, prefix_row: int) -> bool:
    """
    pre: 0 <= row < 6 and 0 <= decl < 3 and 0 <= prefix_row < 5
    post: _
    """
    bom, codec, names = pick(ROWS, row)
    meta_ct = CFG.get('meta_ct', 'text/html')
    if meta and decl == 0 and meta_ct == 'text/xml' and 'meta_declares_xml' in (CFG.get('exclude') or ()):
        return _res(True)        # known finding: the meta element's content type also selects XML treatment
    meta_text = ('<meta http-equiv="Content-Type" content="%s; charset=cp1251">' % meta_ct) if meta else ''
    text_body = '<html>' + meta_text + TEXT + '</html>'
    if decl == 0:
        text = text_body
    elif decl == 1:
        text = DECL_NOENC + text_body
    else:
        text = '<?xml version="1.0" encoding="latin-1"?>\n' + text_body
    if row == 0 and prefix_row > 0 and decl > 0:
        # no BOM, but a UTF-16/32 document that starts with an XML declaration
        enc = pick(NOBOM_PREFIX, prefix_row - 1)
        body = text.encode(enc)
        want_enc = (enc,)
    elif row == 0:
        if decl == 2:
            enc = 'latin-1'
            text = text.replace('Ж', 'Z')
        elif meta and decl == 0:
            enc = 'cp1251'
            text = text.replace('\xe9', 'e')
        else:
            enc = 'utf-8'
        body = text.encode(enc)
        want_enc = (enc,)
    else:
        body = bom + text.encode(codec)
        want_enc = names
    document, encoding, content_type = cu.read_bytes(body, 'utf-8')
    ok = document == text and encoding in want_enc
    if decl > 0:
        ok = ok and content_type == 'text/xml'
    else:
        ok = ok and content_type != 'text/xml'
    return _res(ok)


Q3 = ('"', "'", '')


def meta(s0: int, s1: int, s2: int, q0: int, q1: int, n0: int, selfclose: bool, asbytes: bool) -> bool:
    """
    pre: 0 <= s0 < 4 and 0 <= s1 < 2 and 0 <= s2 < 5 and 0 <= q0 < 3 and 0 <= q1 < 2 and 0 <= n0 < 2
    post: _
    """
    qa = pick(Q3, q0)
    qb = pick(Q3, q1)
    w0 = chr(pick(WS4, s0))
    w1 = chr(pick(WS4, s1))
    w2 = pick(WS5, s2)
    name = 'cp125' + pick('19az', n0)
    pad = ('<!-- ' + 'licence text ' * CFG.get('pad', 0) + '-->') if CFG.get('pad') else ''
    doc = ('<html><head>' + pad + w0 + '<meta' + w1 + 'http-equiv=' + qa + 'Content-Type' + qa + w1 +
           'content=' + qb + 'text/html;' + (chr(w2) if w2 else '') + 'charset=' + name + qb +
           (' /' if selfclose else '') + '></head></html>')
    if CFG.get('upper'):
        doc = doc.replace('http-equiv', 'HTTP-EQUIV').replace('meta', 'META').replace('content=', 'CONTENT=')
    body = doc.encode('ascii') if asbytes else doc
    ct, enc = cu.detect_encoding(body, 'utf-8')
    return _res(enc == name and ct == 'text/html')


HTML_DOC = '<html><input type="checkbox" tal:attributes="checked v" /> a\r\nb</html>'
XML_DOC = '<?xml version="1.0" encoding="latin-1"?>\n<doc><input type="checkbox" tal:attributes="checked v" /> caf\xe9\r\nb</doc>'
VALS = [None, False, True, 0, 1, '', 'x']


def recook(vi: int, xml_first: bool) -> bool:
    """
    pre: 0 <= vi < 7
    post: _
    """
    # one template object cooked with a document of one kind, then with the other: mode-dependent
    # parsing (implicit boolean attributes, newline rewriting) must follow the *current* document
    v = pick(VALS, vi)
    t = STATE['recooked_xml'] if not xml_first else STATE['recooked_html']
    fresh = STATE['fresh_xml'] if not xml_first else STATE['fresh_html']
    ok = t.render(v=v) == fresh.render(v=v) and t.content_type == fresh.content_type and \
        t.content_encoding == fresh.content_encoding
    return _res(ok)


def explain(cfg, *args):
    return {'args': list(args)}


def meta_reversed_witness():
    doc = '<html><head><meta content="text/html; charset=cp1251" http-equiv="Content-Type"></head></html>'
    return cu.detect_encoding(doc, 'utf-8')[1] == 'cp1251'


# ---- the `encoding` option is about byte strings at render time, not about decoding the source -------------
OPT_SOURCES = ['<p>caf\xe9 Ж ${1}</p>', '<?xml version="1.0"?>\n<p>caf\xe9 Ж</p>', 'plain \xe9 text']
OPT_ENCODINGS = [None, 'latin-1', 'utf-16', 'ascii']


def option_encoding(si: int, ei: int, cls: int) -> bool:
    """
    pre: 0 <= si < 3 and 0 <= ei < 4 and 0 <= cls < 2
    post: _
    """
    # a bytes source without BOM / declaration / meta is decoded with the default encoding (utf-8) whatever
    # the template's encoding option says, and renders like the same document given as str
    from chameleon import PageTemplate, PageTextTemplate
    from vlib.notrace import NoTracing
    text = pick(OPT_SOURCES, si)
    enc = pick(OPT_ENCODINGS, ei)
    klass = PageTemplate if cls == 0 else PageTextTemplate
    with NoTracing():
        kw = {} if enc is None else {'encoding': enc}
        try:
            a = klass(text.encode('utf-8'), **kw)
            b = klass(text, **kw)
            ok = a.render() == b.render() and a.content_encoding in ('utf-8', None) and a.content_type == b.content_type
        except Exception:
            ok = False
    return _res(ok)


# ---- template *files*: how the source bytes were decoded leaves no trace in what is rendered ----------------
FILE_SOURCES = ['Dear ${v}, caf\xe9 Ж <b>&amp;</b>\n', '<?xml version="1.0"?>\n<p tal:content="v">x</p> caf\xe9 Ж\n']


def file_source_bytes(row: int, prefix_row: int, si: int, ei: int, text_mode: bool) -> bool:
    """
    pre: 0 <= row < 6 and 0 <= prefix_row < 5 and 0 <= si < 2 and 0 <= ei < 4
    post: _
    """
    # the same document stored with / without a byte-order mark, or as BOM-less UTF-16/32 after an XML
    # declaration, and served by PageTemplateFile (str) / PageTextTemplateFile (bytes in the encoding option,
    # utf-8 by default): the result is what the str document renders to
    import os
    import shutil
    import tempfile
    from chameleon import PageTemplate, PageTemplateFile, PageTextTemplate, PageTextTemplateFile
    from vlib.notrace import NoTracing
    bom, codec, _names = pick(ROWS, row)
    text = pick(FILE_SOURCES, si)
    enc = pick(OPT_ENCODINGS, ei)
    if enc == 'ascii':
        enc = 'utf-8-sig'
    if enc == 'latin-1':
        text = text.replace('Ж', 'Z')          # the output encoding must be able to express the document
    if row == 0 and prefix_row > 0 and si == 1:
        body = text.encode(pick(NOBOM_PREFIX, prefix_row - 1))
    elif row == 0:
        body = text.encode('utf-8')
    else:
        body = bom + text.encode(codec)
    with NoTracing():
        kw = {} if enc is None else {'encoding': enc}
        d = tempfile.mkdtemp(prefix='verif-c17-')
        try:
            path = os.path.join(d, 'doc.txt')
            with open(path, 'wb') as f:
                f.write(body)
            if text_mode:
                got = PageTextTemplateFile(path, **kw).render(v='<\xe9>')
                want = PageTextTemplate(text, **kw).render(v='<\xe9>').encode(enc or 'utf-8')
            else:
                got = PageTemplateFile(path, **kw).render(v='<\xe9>')
                want = PageTemplate(text, **kw).render(v='<\xe9>')
            ok = got == want
        except Exception:
            ok = False
        finally:
            shutil.rmtree(d, True)
    return _res(ok)
