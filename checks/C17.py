"""C17 -- byte input is decoded by BOM / XML declaration / meta charset, then acts as str (DESIGN.md 4, C17)."""
H = 'checks.hC17'


def plan(tier, seed):
    quick = tier == 'quick'
    famD = dict(name='xml_declaration_encoding', module=H, fn='xml_decl',
                jobs=[dict(o, has_enc=he, later=lt, q=q, sym=sym)
                      for o in ({}, {'standalone': True}, {'trailing_space': True})
                      for he in (True, False) for lt in (True, False) for q in ('"', "'")
                      for sym in (('se', 'an') if quick else ('sean',))
                      if (he or lt) and (not quick or (q == '"' or o == {}))],
                timeout=600 if quick else 1800, vacuity=1,
                mutants=[{'name': 'encname_no_underscore', 'cfg': {'has_enc': True, 'later': False, 'q': '"', 'sym': 'an'}},
                         {'name': 'search_whole_document', 'cfg': {'has_enc': False, 'later': True, 'q': '"', 'sym': 'se'}}])
    famT = dict(name='xml_declaration_bytes_twin', module=H, fn='xml_decl_bytes_twin', jobs=[{}], timeout=300, vacuity=1,
                mutants=[])
    famO = dict(name='decoding_order', module=H, fn='order', jobs=[{}, {'meta_ct': 'text/xml'}], timeout=600, vacuity=1,
                mutants=[{'name': 'bom_kept', 'cfg': {}}, {'name': 'meta_before_declaration', 'cfg': {}}])
    famM = dict(name='meta_charset', module=H, fn='meta', jobs=[{}, {'upper': True}, {'pad': 400}], timeout=600 if quick else 1800,
                vacuity=1, mutants=[])
    famR = dict(name='recook_follows_document_kind', module=H, fn='recook', jobs=[{}], timeout=300, vacuity=1,
                mutants=[{'name': 'booleans_stick', 'cfg': {}}])
    famF = dict(name='file_source_bytes', module=H, fn='file_source_bytes', jobs=[{}], timeout=300, vacuity=1, mutants=[])
    famE = dict(name='encoding_option_is_not_the_source_encoding', module=H, fn='option_encoding', jobs=[{}], timeout=300,
                vacuity=1, mutants=[])
    return dict(
        level='model_checking',
        functions=['chameleon.zpt.template:PageTemplate.parse', 'chameleon.template:BaseTemplate.write', 'chameleon.utils:read_bytes', 'chameleon.utils:read_xml_encoding', 'chameleon.utils:detect_encoding',
                   'chameleon.utils:xml_prefixes', 'chameleon.utils:RE_ENCODING', 'chameleon.utils:RE_META'],
        bounds=('regular-language queries from the live RE_ENCODING pattern, no length bound: every XML 1.0 declaration '
                'with an EncodingDecl contains a match, the match cannot start outside it, vacuity twin and a seeded '
                'pattern mutant; symbolic execution of read_xml_encoding on declarations drawn from the XML grammar '
                '(symbolic whitespace bytes, either quote, symbolic EncName characters, with/without encoding, '
                'standalone, trailing space, a later encoding="..." attribute in the document); read_bytes on every '
                'combination of {no BOM, UTF-8/16LE/16BE/32LE/32BE BOM} x {no declaration, declaration without / with '
                'encoding} x {meta charset present/absent} x {BOM-less UTF-16/32 prefix}; detect_encoding on meta elements '
                'with symbolic spacing/quotes for str and bytes input; template files (markup and text mode, 2 documents) stored under every BOM / BOM-less UTF-16/32 form render what the str document renders, text files encoded with the encoding option (4 choices) or utf-8. Outside: attribute order content/http-equiv '
                'reversed and <meta charset> (not recognised; known finding), unquoted content attribute, other codecs '
                '(trusted: stdlib), whole-template bytes-vs-str rendering (compile() boundary).'),
        assumptions=['stdlib codecs are trusted; documents are assembled from grammar choices so that the expected decision '
                     'is known by construction'],
        families=[famD, famT, famO, famM, famR, famE, famF],
        extra=z_queries,
    )


def z_queries(rep, tier, seed):
    import z3
    from chameleon import utils as cu
    from vlib import relang as R
    pat = cu.RE_ENCODING.pattern
    flags = cu.RE_ENCODING.flags
    rx = R.translate(pat, flags)
    # XML 1.0: EncodingDecl ::= S 'encoding' Eq ('"' EncName '"' | "'" EncName "'")
    S = R.union([R.lit(c) for c in (0x20, 0x9, 0xD, 0xA)])
    Sopt = z3.Star(S)
    az = R.union([R.rng(65, 90), R.rng(97, 122)])
    encchar = R.union([az, R.rng(48, 57), R.lit(46), R.lit(95), R.lit(45)])
    encname = z3.Concat(az, z3.Star(encchar))
    lit = lambda s: z3.Re(z3.StringVal(s))   # noqa: E731
    encdecl = z3.Concat(z3.Plus(S), lit('encoding'), Sopt, lit('='), Sopt,
                        z3.Union(z3.Concat(lit('"'), encname, lit('"')), z3.Concat(lit("'"), encname, lit("'"))))
    version = z3.Concat(z3.Plus(S), lit('version'), Sopt, lit('='), Sopt, z3.Union(lit('"1.0"'), lit("'1.0'")))
    decl_with = z3.Concat(lit('<?xml'), version, encdecl, Sopt, lit('?>'))
    s = z3.String('s')
    contains = z3.Concat(R.ALL, rx, R.ALL)
    cons = [z3.InRe(s, decl_with), z3.Not(z3.InRe(s, contains))]
    r, m, dt = R.check(cons, 120000)
    rep.zquery('re_encoding_language', 'XMLDecl with EncodingDecl subset of Sigma* RE_ENCODING Sigma*', r, 'unsat', dt,
               detail={'pattern': pat.decode('latin-1')}, handled=True)
    if r == 'sat':
        w = R.z3_unescape(R.model_str(m, s))
        got = cu.read_xml_encoding(w.encode('latin-1'))
        if got is None:
            rep.violation('re_encoding_language', 'valid XML declaration whose encoding is not recognised: %r' % w,
                          {'replay_module': 'checks.C17', 'input': w})
        else:
            rep.inconclusive.append('RE_ENCODING language query sat (%r) but read_xml_encoding finds %r' % (w, got))
    r2 = R.smtlib_check_with_binary(cons, timeout_s=120)
    rep.zquery('re_encoding_language', 'same query, z3 4.8.12 binary', r2, 'unsat', 0.0, solver='z3-4.8.12', cross=True)
    r3, _, dt3 = R.check([z3.InRe(s, decl_with)], 60000)
    rep.zquery('re_encoding_language', 'vacuity twin (grammar is inhabited)', r3, 'sat', dt3)
    bad = R.translate(pat.replace(b'[\\w.\\-]+', b'[A-Za-z][A-Za-z0-9.\\-]*'), flags)
    r4, m4, dt4 = R.check([z3.InRe(s, decl_with), z3.Not(z3.InRe(s, z3.Concat(R.ALL, bad, R.ALL)))], 120000)
    rep.zquery('re_encoding_language', 'mutant EncName without underscore must be refuted', r4, 'sat', dt4,
               detail={'witness': R.model_str(m4, s) if m4 is not None else None})


def replay(rp):
    from chameleon import utils as cu
    got = cu.read_xml_encoding(rp['input'].encode('latin-1'))
    print('read_xml_encoding(%r) -> %r' % (rp['input'], got))
    return 0 if got is not None else 1
