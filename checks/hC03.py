"""C03 harnesses: tokenizer / tag dissection / verbatim emitters on shape-enumerated,
character-symbolic strings.  Every harness returns True iff the property holds."""
from chameleon import tokenize as tk
from chameleon import parser as ps

CFG = {}
MAXU = 0x110000


def build(shape, cs):
    """shape: list of str fragments and int placeholders (index into cs)."""
    s = ''
    for piece in shape:
        if isinstance(piece, int):
            s = s + chr(cs[piece])
        else:
            s = s + piece
    return s


def _mutate(name):
    import re
    if name == 'TextSE_narrow':       # lexer no longer accepts '&' in text
        tk.re_xml_spe = re.compile(tk.collector.res['XML_SPE'].replace('[^<]+|', '[^<&]+|', 1))
    elif name == 'iter_xml_pos':      # token position off by one after the first token
        real = tk.Token

        def iter_xml(body, filename=None):
            for match in tk.re_xml_spe.finditer(body):
                yield real(match.group(), match.start() and match.start() + 1, body, filename)
        tk.iter_xml = iter_xml
    elif name == 'attr_space_lost':
        ps.match_single_attribute = re.compile(
            ps.match_single_attribute.pattern.replace(r'(?P<space>\s+)', r'\s*(?P<space>\s)', 1),
            re.UNICODE | re.DOTALL)
    else:
        raise KeyError(name)


def prepare(cfg):
    if cfg.get('mutant'):
        _mutate(cfg['mutant'])


def tiles(s):
    pos = 0
    out = ''
    for t in tk.iter_xml(s):
        if t.pos != pos:
            return False
        if t.source[t.pos:t.pos + len(t)] != t:
            return False
        if len(t) == 0:
            return False
        out = out + t
        pos = pos + len(t)
    return out == s and pos == len(s)


def _res(ok):
    return (not ok) if CFG.get('negate') else ok


def tok_tiles(c0: int, c1: int, c2: int, c3: int, c4: int, c5: int) -> bool:
    """
    pre: 0 <= c0 < 0x110000 and 0 <= c1 < 0x110000 and 0 <= c2 < 0x110000
    pre: 0 <= c3 < 0x110000 and 0 <= c4 < 0x110000 and 0 <= c5 < 0x110000
    post: _
    """
    cs = (c0, c1, c2, c3, c4, c5)
    s = build(CFG['shape'], cs)
    return _res(tiles(s))
