"""C03 harnesses: tokenizer / tag dissection / verbatim emitters / newline normalisation on
shape-enumerated, character-symbolic strings.  Every harness returns True iff the property holds
for its arguments (``post: _``); ``CFG`` is filled by the driver per job."""
import re

from chameleon import compiler as cc
from chameleon import parser as ps
from chameleon import tokenize as tk
from chameleon.exc import TemplateError
from chameleon.zpt import program as zp
from chameleon.zpt import template as zt

CFG = {}


def build(shape, cs):
    """shape: list of str fragments and int placeholders (index into cs)."""
    s = ''
    for piece in shape:
        if isinstance(piece, int):
            s = s + chr(cs[piece])
        else:
            s = s + piece
    return s


# ------------------------------------------------------------------------------------------------
# seeded in-memory mutants of the code under test (vacuity/mutation guard, DESIGN.md 3.5)
# ------------------------------------------------------------------------------------------------
def _mutate(name):
    if name == 'content_type_sticks':
        # the content type sniffed for the first document is kept for later ones
        from chameleon import template as ct
        import inspect
        import textwrap
        src_fn = ct.BaseTemplate.write
        code = textwrap.dedent(inspect.getsource(src_fn))
        new = code.replace("self.content_type = content_type or self.default_content_type",
                           "self.content_type = self.__dict__.get('content_type') or content_type or self.default_content_type")
        assert new != code
        ns = dict(src_fn.__globals__)
        exec('from __future__ import annotations\n' + new, ns)
        ct.BaseTemplate.write = ns['write']
        return
    if name == 'digest_folds_line_endings':
        from chameleon import template as ct
        import inspect
        import textwrap
        src_fn = ct.BaseTemplate.digest
        code = textwrap.dedent(inspect.getsource(src_fn))
        new = code.replace("sha = get_pkg_digest()", "sha = get_pkg_digest()\n    body = body.replace('\\r\\n', '\\n')")
        assert new != code
        ns = src_fn.__globals__
        exec('from __future__ import annotations\n' + new, ns)
        ct.BaseTemplate.digest = ns['digest']
        return
    if name == 'data_conversion_any_bound_prefix':
        def convert_data_attributes(ns_attrs, attrs, namespaces):
            d = 0
            for i, attr in list(enumerate(attrs)):
                nm = attr['name']
                if nm.startswith('data-') and '-' in nm[5:]:
                    prefix, rest = nm[5:].split('-', 1)
                    if namespaces.get(prefix) is None:
                        continue
                    ns_attrs[namespaces[prefix], rest] = attr['value']
                    attrs.pop(i - d)
                    d += 1
        zp.convert_data_attributes = convert_data_attributes
        return
    if name == 'empty_tag_shares_scope':
        from chameleon import parser as parser_module
        import inspect
        import textwrap
        src_fn = parser_module.ElementParser.visit_empty_tag
        code = textwrap.dedent(inspect.getsource(src_fn)).replace('namespace = self.namespaces[-1].copy()',
                                                                  'namespace = self.namespaces[-1]')
        assert code != textwrap.dedent(inspect.getsource(src_fn))
        ns = dict(src_fn.__globals__)
        exec(code, ns)
        parser_module.ElementParser.visit_empty_tag = ns['visit_empty_tag']
        return
    if name == 'TextSE_narrow':       # lexer no longer accepts '&' in text
        tk.re_xml_spe = re.compile(tk.collector.res['XML_SPE'].replace('[^<]+|', '[^<&]+|', 1))
    elif name == 'iter_xml_pos':      # token position off by one after the first token
        real = tk.Token

        def iter_xml(body, filename=None):
            for match in tk.re_xml_spe.finditer(body):
                yield real(match.group(), match.start() and match.start() + 1, body, filename)
        tk.iter_xml = iter_xml
    elif name == 'attr_space_collapsed':   # whitespace before an attribute collapses to one blank
        real_mt = ps.match_tag

        def match_tag(token, regex=ps.match_tag_prefix_and_name):
            d = real_mt(token, regex)
            for a in d['attrs']:
                if len(a['space']) > 1:
                    a['space'] = a['space'][:1]
            return d
        ps.match_tag = match_tag
    elif name == 'end_space_doubled':      # End emitter writes the blank before '>' twice
        def visit_End(self, node):
            yield cc.EmitText(node.prefix + node.name + node.space + node.suffix)
        cc.Compiler.visit_End = visit_End
    elif name == 'attr_quote_normalised':  # Attribute emitter always writes double quotes
        real_va = cc.Compiler.visit_Attribute

        def visit_Attribute(self, node):
            if node.quote == "'":
                node.quote = '"'
            return real_va(self, node)
        cc.Compiler.visit_Attribute = visit_Attribute
    elif name == 'crlf_only':              # lone CR no longer normalised
        src = zt.PageTemplate.parse
        import inspect
        import textwrap
        code = textwrap.dedent(inspect.getsource(src)).replace(".replace('\\r', '\\n')", "")
        ns = dict(src.__globals__)
        exec(code, ns)
        zt.PageTemplate.parse = ns['parse']
    else:
        raise KeyError(name)


def prepare(cfg):
    if cfg.get('mutant'):
        _mutate(cfg['mutant'])


def _res(ok):
    return (not ok) if CFG.get('negate') else ok


# ------------------------------------------------------------------------------------------------
# (2) iter_xml tiles its input
# ------------------------------------------------------------------------------------------------
def tiles(s):
    pos = 0
    out = ''
    for t in tk.iter_xml(s):
        if t.pos != pos:
            return False
        if t.source[t.pos:t.pos + len(t)] != t:
            return False
        if len(t) == 0:
            return False
        out = out + t
        pos = pos + len(t)
    return out == s and pos == len(s)


def tok_tiles(c0: int, c1: int, c2: int, c3: int, c4: int, c5: int) -> bool:
    """
    pre: 0 <= c0 < 0x110000 and 0 <= c1 < 0x110000 and 0 <= c2 < 0x110000
    pre: 0 <= c3 < 0x110000 and 0 <= c4 < 0x110000 and 0 <= c5 < 0x110000
    post: _
    """
    cs = (c0, c1, c2, c3, c4, c5)
    s = build(CFG['shape'], cs)
    return _res(tiles(s))


# ------------------------------------------------------------------------------------------------
# (3) tag dissection tiles every tag token
# ------------------------------------------------------------------------------------------------
# Known-finding class malformed_attribute_syntax: a tag token that contains a quote character
# *outside* a well-formed quoted attribute value (= "..." / = '...'), i.e. a quote inside an unquoted
# value or an unterminated quoted value.  parser.match_tag dissects such a tag with gaps (text is
# silently dropped).  The claim stays in force for every other tag token.
_QUOTED_VALUE = re.compile(r"""=[ \n\t\r]*(?:"[^"]*"|'[^']*')""")


def _stray_quote(t):
    rest = _QUOTED_VALUE.sub('=', t)
    return ('"' in rest) or ("'" in rest)


def known_excluded(s):
    """Known-finding classes (see known_findings.jsonl); conjoined negatively to the claim."""
    ex = CFG.get('exclude') or ()
    if 'malformed_attribute_syntax' in ex:
        for t in tk.iter_xml(s):
            if t.startswith('<') and not t.startswith('<!') and not t.startswith('<?') \
                    and t.endswith('>'):
                if _stray_quote(t):
                    return True
    if 'unterminated_end_tag' in ex:
        for t in tk.iter_xml(s):
            if t.startswith('</') and not t.endswith('>'):
                return True
    return False


def tag_pieces(t):
    """Returns None if ``t`` is not a tag token, False if the real match_tag cannot dissect it
    (the front end then rejects the document), else the concatenation of the dissected pieces."""
    kind = ps.identify(t)
    if kind not in ('start_tag', 'empty_tag', 'end_tag'):
        return None
    if ps.match_tag_prefix_and_name.match(t) is None:
        return False
    d = ps.match_tag(t)
    if d['suffix'] is None:
        return False
    out = d['prefix'] + d['name']
    for a in d['attrs']:
        out = out + a['space'] + a['name'] + a['eq'] + a['quote'] + a['value'] + a['quote']
    out = out + d['suffix']
    return out


def tag_tiles_ok(s):
    for t in tk.iter_xml(s):
        try:
            r = tag_pieces(t)
        except TemplateError:
            continue
        if r is None or r is False:
            continue
        if r != t:
            return False
    return True


def tag_tiles(c0: int, c1: int, c2: int, c3: int) -> bool:
    """
    pre: 0 <= c0 < 0x110000 and 0 <= c1 < 0x110000 and 0 <= c2 < 0x110000 and 0 <= c3 < 0x110000
    post: _
    """
    s = build(CFG['shape'], (c0, c1, c2, c3))
    ok = tag_tiles_ok(s)
    if not ok and known_excluded(s):   # evaluated lazily: only failing paths pay for the matcher
        ok = True
    return _res(ok)


# ------------------------------------------------------------------------------------------------
# (4) front end + verbatim emitters reproduce statement-free markup
# ------------------------------------------------------------------------------------------------
class _NoEngine:
    """Stand-in for ExpressionTransform: statement-free documents contain no expression except the
    ``attrs`` alias of static attributes, which is irrelevant to the emitted text."""
    cache = {}

    def __call__(self, expression, target):
        return []


def _compiler():
    c = object.__new__(cc.Compiler)
    c._scopes = [set()]
    c._expression_cache = {}
    c._translations = []
    c._builtins = {}
    c._aliases = [{}]
    c._macros = []
    c._current_slot = []
    c._engine = _NoEngine()
    return c


class _Program(zp.MacroProgram):
    def _create_static_attributes(self, prepared):   # repr()+parse(): C boundary, feeds 'attrs' only
        return None


def emit_text(body, **kw):
    """real tokenizer -> ElementParser -> MacroProgram.visit_* -> Compiler.visit_* ; returns the
    concatenated EmitText or None when something other than text would be emitted."""
    prog = _Program(body, 'xml', '<string>', escape=True, boolean_attributes=frozenset(), **kw)
    c = _compiler()
    out = ''
    for node in prog.body:
        for st in c.visit(node):
            if isinstance(st, cc.EmitText):
                out = out + st.s
            elif isinstance(st, cc.Comment):
                continue
            else:
                return None
    return out


def marked(s):
    return ('${' in s) or ('$$' in s) or ('<!--!' in s) or ('<!--?' in s) or ('<?python' in s)


def undissectable(s):
    for t in tk.iter_xml(s):
        try:
            if tag_pieces(t) is False:
                return True
        except TemplateError:
            return True
    return False


def verbatim_ok(s):
    """C03: *if the document compiles* it renders to itself.  A rejection is in order when a tag
    token cannot be dissected, when a TemplateError is raised, or for an undefined namespace prefix;
    any other exception on a document whose tags all dissect is a failure."""
    if marked(s):
        return True
    try:
        out = emit_text(s)
    except TemplateError:
        return True
    except KeyError as exc:
        return 'Undefined namespace prefix' in str(exc)
    except (TypeError, AttributeError):
        return undissectable(s)
    if out is None:
        return False
    return out == s


def verbatim(c0: int, c1: int, c2: int, c3: int) -> bool:
    """
    pre: 0 <= c0 < 0x110000 and 0 <= c1 < 0x110000 and 0 <= c2 < 0x110000 and 0 <= c3 < 0x110000
    post: _
    """
    s = build(CFG['shape'], (c0, c1, c2, c3))
    ok = verbatim_ok(s)
    if not ok and known_excluded(s):
        ok = True
    return _res(ok)


# ------------------------------------------------------------------------------------------------
# (5) CR / CRLF -> LF outside XML mode, identity in XML mode  (real PageTemplate.parse)
# ------------------------------------------------------------------------------------------------
class _Capture(Exception):
    pass


class _FakeTemplate:
    boolean_attributes = None
    mode = 'xml'
    filename = '<string>'
    default_marker = None
    implicit_i18n_translate = False
    implicit_i18n_attributes = set()
    trim_attribute_space = False
    enable_data_attributes = False
    enable_comment_interpolation = True
    restricted_namespace = True
    tokenizer = None


def _parse_body(s, xml):
    captured = []

    def fake_program(body, *a, **kw):
        captured.append(body)
        return None
    real = zt.MacroProgram
    zt.MacroProgram = fake_program
    try:
        t = _FakeTemplate()
        t.content_type = 'text/xml' if xml else 'text/html'
        zt.PageTemplate.parse(t, s)
    finally:
        zt.MacroProgram = real
    return captured[0]


def ref_newlines(s):
    out = ''
    i = 0
    n = len(s)
    while i < n:
        ch = s[i]
        if ch == '\r':
            out = out + '\n'
            if i + 1 < n and s[i + 1] == '\n':
                i += 1
        else:
            out = out + ch
        i += 1
    return out


def newlines(c0: int, c1: int, c2: int, c3: int, xml: bool) -> bool:
    """
    pre: 0 <= c0 < 0x110000 and 0 <= c1 < 0x110000 and 0 <= c2 < 0x110000 and 0 <= c3 < 0x110000
    post: _
    """
    s = build(CFG['shape'], (c0, c1, c2, c3))
    got = _parse_body(s, xml)
    want = s if xml else ref_newlines(s)
    return _res(got == want)


def explain(cfg, *args):
    s = build(cfg['shape'], args)
    info = {'input': s}
    try:
        info['tokens'] = [str(t) for t in tk.iter_xml(s)]
        info['tag_pieces'] = [tag_pieces(t) for t in tk.iter_xml(s)]
    except Exception as exc:
        info['tag_pieces_exc'] = repr(exc)
    try:
        info['emitted'] = emit_text(s)
    except Exception as exc:
        info['emit_exc'] = repr(exc)
    return info


# ---- verbatim also when compiled modules come from a shared on-disk cache ---------------------------------
XDOCS = ['<?xml version="1.0"?>\n<a>x\ny</a>', '<?xml version="1.0"?>\n<a>x\r\ny</a>', '<?xml version="1.0"?>\r\n<a>x\ny</a>',
         '<?xml version="1.0"?>\n<a>x\ry</a>', '<a>x\ny</a>', '<a>x\ny </a>']


def cached_pair(i: int, j: int, k: int) -> bool:
    """
    pre: 0 <= i < 6 and 0 <= j < 6 and 0 <= k < 6
    post: _
    """
    # statement-free documents compiled one after the other through one module cache: each renders as itself
    # (XML documents keep their line endings; the last two are HTML-mode documents without CR)
    from chameleon import PageTemplate
    from vlib.cachepair import compile_through_one_cache
    docs = [pickx(XDOCS, i), pickx(XDOCS, j), pickx(XDOCS, k)]
    tpls = compile_through_one_cache([(PageTemplate, d, {}) for d in docs])
    ok = True
    for d, t in zip(docs, tpls):
        ok = ok and t.render() == d
    return (not ok) if CFG.get('negate') else ok


def rewritten_kinds(i: int, j: int, k: int, as_file: bool) -> bool:
    """
    pre: 0 <= i < 8 and 0 <= j < 8 and 0 <= k < 8
    post: _
    """
    # one template object that is given three statement-free documents one after the other (write(), or a
    # file template whose file changes): each time it renders the current document -- as written in XML mode,
    # with CR/CRLF read as LF otherwise
    import os
    import shutil
    import tempfile
    from chameleon import PageTemplate, PageTemplateFile
    from vlib.notrace import NoTracing
    pool = XDOCS + ['<a>x\r\ny</a>', '<a k="v">x\ry</a>']
    docs = [pickx(pool, i), pickx(pool, j), pickx(pool, k)]
    as_file = True if as_file else False
    ok = True
    with NoTracing():
        d = tempfile.mkdtemp(prefix='verif-c03-')
        try:
            path = os.path.join(d, 'doc.pt')
            t = None
            for n, doc in enumerate(docs):
                if as_file:
                    with open(path, 'wb') as f:
                        f.write(doc.encode('utf-8'))
                    os.utime(path, (1000000000 + 10 * n, 1000000000 + 10 * n))
                    if t is None:
                        t = PageTemplateFile(path, auto_reload=True)
                elif t is None:
                    t = PageTemplate(doc)
                else:
                    t.write(doc)
                want = doc if doc.startswith('<?xml') else doc.replace('\r\n', '\n').replace('\r', '\n')
                if t.render() != want:
                    ok = False
        except Exception:
            ok = False
        finally:
            shutil.rmtree(d, True)
    return (not ok) if CFG.get('negate') else ok


def pickx(table, idx):
    for n in range(len(table)):
        if idx == n:
            return table[n]
    raise IndexError(idx)


# ---- a namespace declaration on an empty element ends with that element ----------------------------------
NS_URIS = ['http://xml.zope.org/namespaces/tal', 'http://xml.zope.org/namespaces/metal',
           'http://xml.zope.org/namespaces/i18n', 'urn:foreign']


def empty_tag_scope(u: int, w: int, sp: int) -> bool:
    """
    pre: 0 <= u < 4 and 0 <= w < 3 and 0 <= sp < 2
    post: _
    """
    uri = pickx(NS_URIS, u)
    decl = ' xmlns:q="%s"' % uri
    empty = '<x%s%s/>' % (decl, ' ' if sp else '')
    after = pickx(['<q:y>text</q:y>', '<y q:content="v">text</y>', '<y>text</y><q:z k="1"/>'], w)
    doc = '<r>' + empty + after + '</r>'
    # the declaration of a template-language namespace is not copied; nothing else changes: the prefix is
    # not bound for the siblings of the empty element, so what uses it there is ordinary markup
    want = doc.replace(decl, '') if u < 3 else doc
    try:
        out = emit_text(doc)
    except KeyError as exc:
        # an attribute with a prefix that is not bound is rejected (an element name is tolerated)
        ok = w == 1 and 'Undefined namespace prefix' in str(exc)
        return (not ok) if CFG.get('negate') else ok
    except Exception:
        return (not False) if CFG.get('negate') else False
    ok = out == want and w != 1
    return (not ok) if CFG.get('negate') else ok


# ---- statement-free documents under the data-attribute option ------------------------------------------
DATA_DOCS = ['<a data-xml-lang="en" data-x="1">t</a>', '<a xmlns:v="urn:v" data-v-7ba5="1" v:k="2">t</a>',
             '<a data-x-y="2" data-foo="1" data-xmlns-q="u">t</a>', '<a xml:lang="en" data-xml-space="preserve">t</a>',
             '<r xmlns:f="urn:f"><f:e data-f-k="1"/><e data-f="2" f:a="3"/></r>']


def data_option_verbatim(i: int, j: int) -> bool:
    """
    pre: 0 <= i < 5 and 0 <= j < 5
    post: _
    """
    # data-* attributes that do not spell a template statement are ordinary markup, option on or off
    from chameleon import PageTemplate
    from vlib.notrace import NoTracing
    ok = True
    for k in (i, j):
        doc = pickx(DATA_DOCS, k)
        with NoTracing():
            on = PageTemplate(doc, enable_data_attributes=True).render()
            off = PageTemplate(doc).render()
        ok = ok and on == doc and off == doc
    return (not ok) if CFG.get('negate') else ok
