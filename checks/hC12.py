"""C12 harness: a symbolic evaluation point of a compiled template raises a symbolic exception class
with a symbolic argument; the exception leaving render() must keep class and args, be a RenderError,
and name exactly the failing expression with its line/column, innermost frame first."""
import atexit
import os
import re
import shutil
import tempfile

from chameleon import PageTemplate
from chameleon import PageTemplateFile
from chameleon.exc import RenderError

CFG = {}
STATE = {}


class Custom2(Exception):
    def __init__(self, a, b):
        Exception.__init__(self, a, b)
        self.extra = b


class CustomStr(Exception):
    def __str__(self):
        return 'custom-str'


class Stop(BaseException):
    """stands for KeyboardInterrupt / SystemExit (CrossHair treats those as its own control flow)"""


def mk_exc(ci, a):
    if ci == 0:
        return ValueError(a)
    if ci == 1:
        return KeyError(a)
    if ci == 2:
        return Custom2(a, 'x')
    if ci == 3:
        return CustomStr(a)
    if ci == 4:
        return RecursionError(a)
    if ci == 5:
        return Stop(a)
    if ci == 6:
        return ZeroDivisionError(a)
    return AttributeError(a)


CLASSES = [ValueError, KeyError, Custom2, CustomStr, RecursionError, Stop, ZeroDivisionError, AttributeError]

TEMPLATES = {
    'sites5': ('<p tal:define="a L(0); b L(1)" tal:attributes="x L(2); y L(3)">${L(4)}\n'
               '  <i tal:content="L(5)">.</i></p>', 6),
    'multiline': ('é café\n<div>\n   ${L(0)} and ${ L(1) }\n\t<b class="${L(2)}">x</b>\n</div>', 3),
    'guards': ('<p tal:condition="L(0)" tal:repeat="i range(L(1))" tal:omit-tag="not L(2)">x${L(3)}</p>', 4),
    'replace-switch': ('<div tal:switch="L(0)">\n <p tal:case="L(1)" tal:replace="L(2)">x</p>\n</div>', 3),
    # expressions that start in column 0 of a later line (multi-line attribute values and interpolations)
    'column-zero': ('<div tal:content="\nL(0)\n">x</div><p tal:define="y\nL(1)">k</p>${\nL(2)}\n'
                    '<b tal:condition="\n\nL(3)">z</b>', 4),
    'string-structure': ('<p tal:content="string:a${L(0)}b">x</p><p tal:content="structure L(1)">y</p>'
                         '<p tal:content="python: L(2)">z</p>', 3),
}

# other line endings (outside XML mode they are read as line breaks and reported as such)
TEMPLATES['crlf'] = (TEMPLATES['multiline'][0].replace('\n', '\r\n') + '\r\n<i tal:content="L(3)">.</i>', 4)
TEMPLATES['cr'] = (TEMPLATES['sites5'][0].replace('\n', '\r') + '\r\r<b>${L(6)}</b>', 7)
TEMPLATES['crlf-xml'] = ('<?xml version="1.0"?>\r\n' + TEMPLATES['sites5'][0].replace('\n', '\r\n'), 6)

# character entities inside the failing expression (known finding: the report is cut from the source with the
# length of the decoded text)
TEMPLATES['entity-in-expression'] = ('<div>${1 &lt; 2 and L(0)}</div>\n<p tal:content="L(1) &gt; 0 or 1">x</p>', 2)

# the same composite expression text twice: the first occurrence is not reached, the second one fails
TEMPLATES['same-text-twice'] = (
    '<p tal:condition="False">${structure: L(0)}<i tal:content="not: L(1)"/></p>\n<p>${structure: L(0)}</p>\n'
    '<b tal:condition="not: L(1)">x</b>\n<q tal:content="string:a ${L(2)}" tal:condition="False"/>'
    '<q tal:content="string:a ${L(2)}"/>\n<u tal:content="nope | python: L(3)" tal:condition="False"/>'
    '<u tal:content="nope | python: L(3)"/>', 4)
NTH = {'same-text-twice': 1}      # which occurrence of the expression text is the one that is evaluated

# the failing *expression* is the whole expression text the evaluation point belongs to
EXPR_OVERRIDE = {'guards': {1: 'range(L(1))', 2: 'not L(2)'}, 'string-structure': {2: 'python: L(2)'},
                 'same-text-twice': {3: 'python: L(3)'},
                 'entity-in-expression': {0: '1 &lt; 2 and L(0)', 1: 'L(1) &gt; 0 or 1'}}

# templates whose expected frame chain has more than one record or must not grow:
# name -> (text, n leaves, {leaf: [expression texts innermost first]})
CHAIN_TEMPLATES = {
    'inline-macro': ('<div tal:define="t L(0)">\n <p metal:define-macro="m">${L(1)}</p>\n ${L(2)}</div>', 3,
                     {0: ['L(0)'], 1: ['L(1)'], 2: ['L(2)']}),
    # a failure inside a macro that tal:on-error handled must leave nothing behind for a later, unrelated failure
    'after-handled-macro-failure': ('<div><hide tal:condition="False"><i metal:define-macro="m">${nope}</i></hide>'
                                    '<p tal:on-error="string:handled"><u metal:use-macro="macros[\'m\']"/></p>\n'
                                    '<b>${L(0)}</b>\n <q tal:content="L(1)"/></div>', 2, {0: ['L(0)'], 1: ['L(1)']}),
    # a failure inside a slot filler: the failing expression first, then the use-macro call site
    'filler-failure': ('<div><hide tal:condition="False"><p metal:define-macro="m">A ${1 + 1}<b metal:define-slot="s">d</b>'
                       '${L(1)}</p></hide>\n<u metal:use-macro="macros[\'m\']">\n  <i metal:fill-slot="s">x ${L(0)}</i></u>'
                       '</div>', 2, {0: ['L(0)', "macros['m']"], 1: ['L(1)', "macros['m']"]}),
    # the template renders itself from inside an expression: every enclosing call site is listed
    'recursive-render': ('<div tal:define="d d + 1">\n ${L(0) if d == 3 else d}\n'
                         ' ${structure: template.render(d=d, L=L) if d != 3 else \'\'}</div>', 1,
                         {0: ['L(0) if d == 3 else d', "template.render(d=d, L=L) if d != 3 else ''",
                              "template.render(d=d, L=L) if d != 3 else ''"]}),
    'recursive-macro': ('<div metal:define-macro="tree" tal:define="d d + 1">\n ${L(0) if d == 3 else d}\n'
                        ' <b tal:condition="d &lt; 3" metal:use-macro="template.macros[\'tree\']" />\n</div>', 1,
                        {0: ['L(0) if d == 3 else d', "template.macros['tree']", "template.macros['tree']"]}),
}

FILES = {
    'macro-chain': {
        'main.pt': '<html>\n  <div metal:use-macro="load: lib.pt">\n  </div>\n ${L(2)}</html>',
        'lib.pt': '<section>\n   <p tal:content="L(0)">x</p>\n <metal:b use-macro="load: leaf.pt" /></section>',
        'leaf.pt': '<em>\n\n  ${L(1)}</em>',
    },
}
FILES['macro-chain-composite'] = {
    # use-macro expressions with sub-expressions of their own: a computed name, and a fallback alternative
    'main.pt': '<html>\n  <div metal:use-macro="load: ${nm}.pt">\n  </div>\n ${L(2)}</html>',
    'lib.pt': '<section>\n   <p tal:content="L(0)">x</p>\n <metal:b use-macro="nosuch | load: leaf.pt" /></section>',
    'leaf.pt': '<em>\n\n  ${L(1)}</em>',
}
FILES['same-name-cached'] = {
    # two sites with files of the same name and content, compiled through one on-disk module cache
    'a/index.pt': '<html>\n <div metal:use-macro="load: layout.pt" />${L(1)}</html>',
    'a/layout.pt': '<section>\n  <p tal:content="L(0)">x</p></section>',
    'b/index.pt': '<html>\n <div metal:use-macro="load: layout.pt" />${L(1)}</html>',
    'b/layout.pt': '<section>\n  <p tal:content="L(0)">x</p></section>',
}
MAIN = {'same-name-cached': 'b/index.pt'}
FIRST = {'same-name-cached': 'a/index.pt'}
# (file, expression) of each leaf and the call chain (file, expression text) from innermost outwards
CHAINS = {
    'macro-chain': {
        0: [('lib.pt', 'L(0)'), ('main.pt', 'load: lib.pt')],
        1: [('leaf.pt', 'L(1)'), ('lib.pt', 'load: leaf.pt'), ('main.pt', 'load: lib.pt')],
        2: [('main.pt', 'L(2)')],
    },
    'same-name-cached': {
        0: [('b/layout.pt', 'L(0)'), ('b/index.pt', 'load: layout.pt')],
        1: [('b/index.pt', 'L(1)')],
    },
    'macro-chain-composite': {
        0: [('lib.pt', 'L(0)'), ('main.pt', 'load: ${nm}.pt')],
        1: [('leaf.pt', 'L(1)'), ('lib.pt', 'nosuch | load: leaf.pt'), ('main.pt', 'load: ${nm}.pt')],
        2: [('main.pt', 'L(2)')],
    },
}


def _mutate(name):
    from chameleon import template as ct
    from chameleon import compiler as cc
    import inspect
    import textwrap
    if name == 'wrap_base':
        src_fn = ct.BaseTemplate.render
        code = textwrap.dedent(inspect.getsource(src_fn)).replace('    except Exception:\n', '    except BaseException:\n', 1)
        assert code != textwrap.dedent(inspect.getsource(src_fn))
        ns = dict(src_fn.__globals__)
        exec(code, ns)
        ct.BaseTemplate.render = ns['render']
    elif name == 'tokenref_unstripped':
        src_fn = cc.ExpressionEngine.get_compiler
        code = textwrap.dedent(inspect.getsource(src_fn)).replace('TokenRef(string.strip())', 'TokenRef(string)')
        assert code != textwrap.dedent(inspect.getsource(src_fn))
        ns = dict(src_fn.__globals__)
        exec(code, ns)
        cc.ExpressionEngine.get_compiler = ns['get_compiler']
    elif name == 'args_dropped':
        from chameleon import utils as cu
        src_fn = cu.create_formatted_exception
        code = textwrap.dedent(inspect.getsource(src_fn)).replace('BaseException.__init__(inst, *exc.args)',
                                                                  'BaseException.__init__(inst, str(exc))')
        assert code != textwrap.dedent(inspect.getsource(src_fn))
        ns = dict(src_fn.__globals__)
        exec('from __future__ import annotations\n' + code, ns)
        cu.create_formatted_exception = ns['create_formatted_exception']
        ct.create_formatted_exception = ns['create_formatted_exception']
    else:
        raise KeyError(name)


def locate(text, needle, nth=0):
    pos = -1
    for _ in range(nth + 1):
        pos = text.index(needle, pos + 1)
    before = text[:pos]
    line = before.count('\n') + 1
    col = pos - (before.rfind('\n') + 1)
    return line, col


def prepare(cfg):
    if cfg.get('mutant'):
        _mutate(cfg['mutant'])
    name = cfg['template']
    if name in TEMPLATES:
        text, n = TEMPLATES[name]
        STATE['tpl'] = PageTemplate(text)
        STATE['n'] = n
        ov = EXPR_OVERRIDE.get(name, {})
        # outside XML mode CR and CRLF are read as line breaks (documented), positions refer to that reading
        seen = text if text.startswith('<?xml') else text.replace('\r\n', '\n').replace('\r', '\n')
        nth = NTH.get(name, 0)
        STATE['expect'] = {k: [('<string>', ov.get(k, 'L(%d)' % k)) + locate(seen, ov.get(k, 'L(%d)' % k), nth)]
                           for k in range(n)}
        if name == 'multiline':
            pass
    elif name in CHAIN_TEMPLATES:
        text, n, chains = CHAIN_TEMPLATES[name]
        STATE['tpl'] = PageTemplate(text)
        STATE['n'] = n
        STATE['expect'] = {k: [('<string>', ex) + locate(text, ex) for ex in chain] for k, chain in chains.items()}
    else:
        d = tempfile.mkdtemp(prefix='verif-c12-')
        atexit.register(shutil.rmtree, d, True)
        for fn, text in FILES[name].items():
            os.makedirs(os.path.dirname(os.path.join(d, fn)), exist_ok=True)
            with open(os.path.join(d, fn), 'w') as f:
                f.write(text)
        kw = {}
        if name in FIRST:
            from chameleon.loader import ModuleLoader
            os.makedirs(os.path.join(d, 'cache'))
            kw['loader'] = ModuleLoader(os.path.join(d, 'cache'))
            # the other site is compiled (and stored) first
            PageTemplateFile(os.path.join(d, FIRST[name]), **kw).render(L=lambda k: 1, d=0, nm='lib')
        STATE['tpl'] = PageTemplateFile(os.path.join(d, MAIN.get(name, 'main.pt')), **kw)
        STATE['n'] = len(CHAINS[name])
        exp = {}
        for k, chain in CHAINS[name].items():
            exp[k] = [(os.path.join(d, fn), ex) + locate(FILES[name][fn], ex) for fn, ex in chain]
        STATE['expect'] = exp
        STATE['dir'] = d
    # warm-up: lazily loaded/compiled templates (load:) are cooked natively, not under tracing
    STATE['tpl'].render(L=lambda k: 1, d=0, nm='lib')


REC = re.compile(r' - Expression: "(.*)"\n - Filename:   (.*)\n - Location:   \(line (\d+): col (\d+)\)')


def parse_records(msg):
    return [(m.group(2), m.group(1), int(m.group(3)), int(m.group(4))) for m in REC.finditer(msg)]


def message(e):
    """str(e).  The re-typed class carries an ExceptionFormatter *instance* as __str__; CPython calls it
    without arguments, CrossHair's model of str() would pass the object."""
    f = type(e).__dict__.get('__str__')
    if f is not None and not hasattr(f, '__get__'):
        return f()
    return str(e)


def check(sel, ci, a):
    state = {'raised': None}

    def L(k):
        if k == sel:
            exc = mk_exc(ci, a)
            state['raised'] = exc
            raise exc
        return 1
    try:
        out = STATE['tpl'].render(L=L, d=0, nm='lib')
    except BaseException as e:
        if type(e).__module__.startswith('crosshair') or state['raised'] is None:
            raise
        orig = state['raised']
        cls = type(orig)
        if not isinstance(e, cls):
            return False
        if e.args != orig.args:
            return False
        if ci == 4:                       # RecursionError passes through unwrapped
            return e is orig
        if ci == 5:                       # never turned into an Exception subclass
            return not isinstance(e, Exception)
        if not isinstance(e, RenderError):
            return False
        if ci == 2 and getattr(e, 'extra', None) != 'x':
            return False
        msg = message(e)
        recs = parse_records(msg)
        want = STATE['expect'][sel]
        if len(recs) < len(want):
            return False
        for (wf, wx, wl, wc), (gf, gx, gl, gc) in zip(want, recs):
            if gx != wx or gl != wl or gc != wc:
                return False
            if wf != '<string>' and not wf.endswith(gf.replace('... ', '')):
                return False
        if len(recs) != len(want):
            return False
        return True
    # no exception: only legitimate when no evaluation point was selected (or it was never reached)
    return state['raised'] is None and isinstance(out, str)


def H(sel: int, ci: int, a: int) -> bool:
    """
    pre: 0 <= sel <= STATE['n'] and 0 <= ci < 8
    post: _
    """
    # the argument value is irrelevant to the property; three representatives keep the message concrete
    av = 0 if a == 0 else (7 if a > 0 else -1)
    ok = check(sel, ci, av)
    return (not ok) if CFG.get('negate') else ok


def explain(cfg, sel, ci, a):
    def L(k):
        if k == sel:
            raise mk_exc(ci, a)
        return 1
    try:
        out = STATE['tpl'].render(L=L, d=0, nm='lib')
        return {'rendered': out}
    except BaseException as e:
        return {'type': [c.__name__ for c in type(e).__mro__], 'args': repr(e.args), 'str': str(e)[:1500],
                'expected': STATE['expect'].get(sel)}
