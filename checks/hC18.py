"""C18 harness (metamorphic): every re-spelling of a template's language markup renders identically, no
language attribute / prefix / xmlns value reaches the output, every foreign attribute does."""
import re

from chameleon import PageTemplate

from checks import hG
from vlib import tprog

CFG = {}
N = hG.N
STATE = {}

SPELLINGS = {
    'default': None,
    'renamed-root': {'prefixes': {'tal': 't', 'metal': 'm', 'i18n': 'i', 'meta': 'mm'}, 'declare': 'root'},
    'renamed-each': {'prefixes': {'tal': 'tt'}, 'declare': 'each'},
    'data': {'form': 'data'},
    'element': {'element_form': True},
    'element-renamed': {'element_form': True, 'prefixes': {'tal': 'z'}, 'declare': 'root'},
}
LEAK = re.compile(r'(\s(tal|metal|i18n|meta|t|tt|m|i|mm|z):[\w-]+=|data-(tal|metal|i18n|meta)-|'
                  r'http://xml\.zope\.org/namespaces/(tal|metal|i18n|meta)|</?(tal|t|tt|z):)')


def _mutate(name):
    from chameleon import tal
    from chameleon import parser as ps
    from chameleon.zpt import program as zp
    import inspect
    import textwrap
    if name == 'xmlns_decl_kept':
        src_fn = tal.prepare_attributes
        code = textwrap.dedent(inspect.getsource(src_fn)).replace("attribute['value'] in drop_ns", "False")
        assert code != textwrap.dedent(inspect.getsource(src_fn))
        ns = dict(src_fn.__globals__)
        exec(code, ns)
        tal.prepare_attributes = ns['prepare_attributes']
    elif name == 'empty_tag_shares_scope':
        src_fn = ps.ElementParser.visit_empty_tag
        code = textwrap.dedent(inspect.getsource(src_fn)).replace('namespace = self.namespaces[-1].copy()',
                                                                  'namespace = self.namespaces[-1]')
        assert code != textwrap.dedent(inspect.getsource(src_fn))
        ns = dict(src_fn.__globals__)
        exec(code, ns)
        ps.ElementParser.visit_empty_tag = ns['visit_empty_tag']
    elif name == 'data_conversion_any_prefix':
        def convert_data_attributes(ns_attrs, attrs, namespaces):
            d = 0
            for i, attr in list(enumerate(attrs)):
                name = attr['name']
                if name.startswith('data-'):
                    name = name[5:]
                    if '-' not in name:
                        continue
                    prefix, name = name.split('-', 1)
                    if prefix not in namespaces:
                        continue
                    ns_attrs[namespaces[prefix], name] = attr['value']
                    attrs.pop(i - d)
                    d += 1
        zp.convert_data_attributes = convert_data_attributes
    else:
        raise KeyError(name)


def prepare(cfg):
    if cfg.get('mutant'):
        _mutate(cfg['mutant'])
    hG.CFG.clear()
    hG.CFG.update({k: v for k, v in cfg.items() if k not in ('mutant', 'negate')})
    prog = cfg['prog']
    STATE['tpls'] = []
    STATE['texts'] = []
    for name in cfg['spellings']:
        sp = SPELLINGS[name]
        text = tprog.serialise(prog, spelling=sp)
        opts = dict(cfg.get('options', {}))
        if sp and sp.get('form') == 'data' or cfg.get('data_option'):
            opts['enable_data_attributes'] = True
        STATE['texts'].append((name, text))
        try:
            STATE['tpls'].append(PageTemplate(text, **opts))
        except Exception as exc:
            STATE['tpls'].append(None)
            STATE['texts'][-1] = (name, text, 'COMPILE ERROR %r' % (exc,))
    for k in range(6):
        N[k] = 1
    for name, kind, slot in cfg.get('vars', []):
        if kind not in hG.BOOL_KINDS and slot is not None:
            N[slot] = hG.KIND_N.get(kind, 4)


def render(tpl, b):
    b = dict(b)
    b.pop('__outs__', None)
    b.pop('__vals__', None)
    b['rec'] = hG.rec
    b['show'] = hG.show
    try:
        return ('ok', tpl.render(**b))
    except Exception as exc:
        return ('exc', hG._base_name(exc))


def check(mk):
    outs = []
    for tpl in STATE['tpls']:
        if tpl is None:
            return False
        outs.append(render(tpl, mk()))
    first = outs[0]
    if first[0] != 'ok':
        return False
    for o in outs[1:]:
        if o != first:
            return False
    text = first[1]
    if LEAK.search(text) is not None:
        return False
    for needle in CFG.get('must_contain', []):
        if needle not in text:
            return False
    return True


def H(i0: int, i1: int, i2: int, i3: int, i4: int, i5: int,
      b0: bool, b1: bool, b2: bool, b3: bool, b4: bool, b5: bool) -> bool:
    """
    pre: 0 <= i0 < N[0] and 0 <= i1 < N[1] and 0 <= i2 < N[2]
    pre: 0 <= i3 < N[3] and 0 <= i4 < N[4] and 0 <= i5 < N[5]
    post: _
    """
    ok = check(lambda: hG.bind((i0, i1, i2, i3, i4, i5), (b0, b1, b2, b3, b4, b5)))
    return (not ok) if CFG.get('negate') else ok


def explain(cfg, *args):
    mk = lambda: hG.bind(args[:6], args[6:])   # noqa: E731
    return {'templates': STATE['texts'],
            'rendered': [render(t, mk()) if t is not None else None for t in STATE['tpls']]}
