"""C16 harnesses: file templates follow their files (reload histories) and the loader resolves names
predictably (symbolic existence matrix, load histories, load: expressions).

Reload histories run the *real* PageTemplateFile (cook_check, mtime, read, cook, render, Macros) on a model
file (``open`` / ``os.path.getmtime`` in chameleon.template answer from FILES); the operations of the history,
the version written, the macro asked for and every modification time are symbolic.  The compile step is
memoised per body (versions come from a table of concrete documents: a template has to pass compile()),
everything after it -- publishing the entry points, forgetting old ones, content type -- is the real code.

Loader harnesses run the real TemplateLoader.load / zpt TemplateLoader / PageTemplateFile.__init__ (post_init)
with ``os.path.exists`` answering from a symbolic existence matrix."""
import os as _os

from chameleon import loader as ld
from chameleon import template as ct
from chameleon.exc import TemplateError
from chameleon.utils import Scope
from chameleon.zpt import loader as zl
from chameleon.zpt import template as zt

CFG = {}
STATE = {}


from vlib.notrace import NoTracing  # noqa: E402

# ---------------------------------------------------------------------------------------------------
# model file: path -> [bytes, mtime]
# ---------------------------------------------------------------------------------------------------
FILES = {}
COUNT = {'cook': 0, 'compile': 0}


class _ModelFile:
    def __init__(self, data):
        self.data = data

    def read(self):
        return self.data

    def __enter__(self):
        return self

    def __exit__(self, *a):
        return False


def model_open(path, mode='r', *a, **kw):
    path = str(path)
    if path in FILES:
        return _ModelFile(FILES[path][0])
    raise FileNotFoundError(path)


class _ModelPath:
    def __getattr__(self, name):
        return getattr(_os.path, name)

    @staticmethod
    def getmtime(path):
        path = str(path)
        if path in FILES:
            return FILES[path][1]
        raise FileNotFoundError(path)

    @staticmethod
    def exists(path):
        return EXISTS(str(path))


class _ModelOS:
    path = _ModelPath()

    def __getattr__(self, name):
        return getattr(_os, name)


def EXISTS(path):
    fn = STATE.get('exists')
    if fn is None:
        return path in FILES
    return fn(path)


VERSIONS = [
    b'<?xml version="1.0"?>\n<div><p metal:define-macro="m1">A1</p>zero</div>',
    b'<div><p metal:define-macro="m2">B2</p><p metal:define-macro="m1">B1</p>one</div>',
    b'<html><head><meta http-equiv="Content-Type" content="text/plain; charset=latin-1"></head>two</html>',
    b'<div><p metal:define-macro="m1" tal:content="1 +">broken</p></div>',       # does not compile
]
BROKEN = 3
PATH = '/model/site/index.pt'
_PROGRAMS = {}


class FT(zt.PageTemplateFile):
    """the real file template; only the compile step is memoised per (body, digest)"""

    def _cook(self, body, digest, names):
        COUNT['cook'] += 1
        key = (body, names)      # the digest (file name, options) does not influence the program
        if key not in _PROGRAMS:
            COUNT['compile'] += 1
            with NoTracing():            # compile() and the compiler's use of inspect/textwrap: a C boundary
                try:
                    _PROGRAMS[key] = ('ok', zt.PageTemplateFile._cook(self, body, digest, names))
                except TemplateError as exc:
                    _PROGRAMS[key] = ('error', exc)
        kind, value = _PROGRAMS[key]
        if kind == 'error':
            raise value
        return value


def _install_model():
    ct.open = model_open
    ct.os = _ModelOS()
    ld.os = _ModelOS()


def _macro_out(function):
    stream = []
    function(stream, Scope(_kw()), {})
    return ''.join(stream)


def _observe_state(t):
    """what the instance would serve *now*, read without triggering a reload"""
    fns = {k[8:]: v for k, v in t.__dict__.items() if k.startswith('_render_')}
    macros = {}
    for k in sorted(fns):
        macros[k] = _macro_out(fns[k])
    stream = []
    t._render(stream, Scope(_kw()), {})
    return (''.join(stream), macros, t.content_type, t.content_encoding)


def _kw():
    from chameleon.tal import RepeatDict
    return {'__translate': None, '__decode': None, '__on_error_handler': None, 'target_language': None,
            'repeat': RepeatDict({}), '__convert': None}


def _fresh(version):
    """oracle: a newly constructed template on that content alone"""
    FILES[PATH] = [VERSIONS[version], 12345]
    t = FT(PATH, auto_reload=False)
    out = t.render()
    names = sorted(t.macros.names)
    macros = {}
    for n in names:
        macros[n] = _macro_out(t.macros[n].include)
    return (out, macros, t.content_type, t.content_encoding)


def _mutate(name):
    import inspect
    import textwrap

    def redefine(cls, attr, old, new, extra_globals=None):
        fn = inspect.getattr_static(cls, attr)
        fn = getattr(fn, '__func__', fn)
        if cls is ld.TemplateLoader and attr == 'load':
            fn = fn.__closure__[0].cell_contents      # the function behind the @cache wrapper
        code = textwrap.dedent(inspect.getsource(fn)).replace('@cache\n', '')
        changed = code.replace(old, new)
        assert changed != code, (name, attr)
        ns = fn.__globals__
        changed = changed.replace('super().', 'super(%s, self).' % cls.__name__)
        exec('from __future__ import annotations\n' + changed, ns)
        new_fn = ns[attr]
        if fn.__name__ == 'load' and cls is ld.TemplateLoader:
            new_fn = ld.cache(new_fn)
        setattr(cls, attr, new_fn)
    if name == 'keep_stale_macros':
        redefine(ct.BaseTemplate, 'cook', "and name[1:] not in functions", "and False")
    elif name == 'mtime_truthy':
        redefine(ct.BaseTemplateFile, 'cook_check', 'if mtime != self._v_last_read:',
                 'if mtime and mtime != self._v_last_read:')
    elif name == 'mtime_monotone':
        redefine(ct.BaseTemplateFile, 'cook_check', 'if mtime != self._v_last_read:',
                 'if self._v_last_read is None or mtime > self._v_last_read:')
    elif name == 'always_recook':
        redefine(ct.BaseTemplateFile, 'cook_check', 'if self._cooked is False:', 'if True:')
    elif name == 'content_type_sticky':
        redefine(ct.BaseTemplateFile, 'read', 'self.content_type = content_type or self.default_content_type',
                 "self.content_type = content_type or self.__dict__.get('content_type') or "
                 "self.default_content_type")
    elif name == 'names_without_check':
        src = zt.Macros.names.fget
        code = textwrap.dedent(inspect.getsource(src)).replace('self.template.cook_check()', 'pass')
        code = code.replace('@property\n', '')
        ns = src.__globals__
        exec('from __future__ import annotations\n' + code, ns)
        zt.Macros.names = property(ns['names'])
    elif name == 'extension_always':
        redefine(ld.TemplateLoader, 'load', "if self.default_extension is not None and '.' not in spec:",
                 "if self.default_extension is not None and not spec.endswith(self.default_extension):")
    elif name == 'last_match_wins':
        redefine(ld.TemplateLoader, 'load', "for path in self.search_path:", "for path in reversed(self.search_path):")
    elif name == 'no_break_after_match':
        redefine(ld.TemplateLoader, 'load', "spec = path\n                        break",
                 "spec = path\n                        continue")
    elif name == 'shared_search_path':
        redefine(zt.PageTemplateFile, '__init__', "search_path = list(search_path)", "pass")
    elif name == 'relative_appended':
        redefine(zt.PageTemplateFile, '__init__', "search_path.insert(0, path)", "search_path.append(path)")
    elif name == 'cache_by_class_only':
        def cache(func):
            def load(self, *args, **kwargs):
                key = args[1:]
                template = self.registry.get(key)
                if template is None:
                    self.registry[key] = template = func(self, *args, **kwargs)
                return template
            return load
        inner = ld.TemplateLoader.load
        raw = inner.__closure__[0].cell_contents
        ld.TemplateLoader.load = cache(raw)
    else:
        raise KeyError(name)


def prepare(cfg):
    _install_model()
    STATE.clear()
    # oracle first, on the unmutated code: the code under test is the reload machinery, the oracle is
    # "a fresh template on that content"
    STATE['fresh'] = [_fresh(i) for i in range(3)]
    if cfg.get('two_files'):
        fresh = STATE['fresh']
        prepare2()
        STATE['fresh'] = fresh
    if cfg.get('mutant'):
        _mutate(cfg['mutant'])
    # compile the load: documents once, natively (the compiler reads its own source with inspect)
    for body in (LOAD_BODY, LOAD_BODY_DYN):
        FILES['/pre/page.pt'] = [body, 1]
        STATE['exists'] = lambda p: True
        try:
            FT('/pre/page.pt').render(name='inc.pt')
        except Exception:
            pass
    STATE['exists'] = None
    FILES.clear()


def _res(ok):
    return (not ok) if CFG.get('negate') else ok


def pick(table, idx):
    for j in range(len(table)):
        if idx == j:
            return table[j]
    raise IndexError(idx)


# ---------------------------------------------------------------------------------------------------
# reload histories
# ---------------------------------------------------------------------------------------------------
# operations: 0 write version a (mtime becomes m), 1 touch (mtime becomes m), 2 render (render() on even steps,
#             __call__ on odd ones), 3 macros.names, 4 macros[MACRO_NAMES[a]]
N_OPS = 5
MACRO_NAMES = ['m1', 'm2', 'm-3']


def _use(t, op, a, i, exp, detail=None):
    """one use of the template through the public entry point `op`; compares with the oracle triple"""
    exp_out, exp_macros = exp[0], exp[1]
    if op == 2:
        got = t.render() if i % 2 == 0 else t()
        ok = got == exp_out
    elif op == 3:
        got = sorted(t.macros.names)
        ok = got == sorted(exp_macros)
    else:
        name = pick(MACRO_NAMES, a)
        key = name.replace('-', '_')
        try:
            mac = t.macros[name]
            with NoTracing():
                got = _macro_out(mac.include)
            ok = key in exp_macros and got == exp_macros[key]
        except KeyError:
            got = 'KeyError'
            ok = key not in exp_macros
    if detail is not None:
        detail.append({'op': op, 'a': a, 'got': got})
    return ok


def run_history(ops, detail=None):
    """ops: list of (op, a, m).  Returns True iff every observation matches the oracle."""
    auto = CFG.get('auto_reload', True)
    init_v = CFG.get('init_version', 0)
    init_m = CFG.get('init_mtime', 7)
    FILES.clear()
    FILES[PATH] = [VERSIONS[init_v], init_m]
    COUNT['cook'] = 0
    t = FT(PATH, auto_reload=auto)
    cur_v, cur_m = init_v, init_m
    used_mtimes = [init_m]
    seen_m = None            # modification time at the template's last look at the file
    served_v = None          # version the instance has to serve
    cooks = 0
    fresh = STATE['fresh']
    ok = True
    i = 0
    if CFG.get('warm'):
        # the history starts from an instance that has already served the initial version
        t.render()
        served_v, seen_m, cooks = init_v, init_m, 1
    for (op, a, m) in ops:
        i += 1
        if op == 0 or op == 1:
            # the stated assumption: a modification gives the file a modification time it did not have before
            for u in used_mtimes:
                if m == u:
                    return True
            used_mtimes.append(m)
            if op == 0:
                cur_v = pick(CFG.get('versions', [0, 1, 2]), a)
                FILES[PATH] = [VERSIONS[cur_v], m]
            else:
                FILES[PATH] = [FILES[PATH][0], m]
            cur_m = m
            continue
        # a use of the template: which version must it serve, and may it recompile?
        if served_v is None:
            served_v, seen_m = cur_v, cur_m
            cooks += 1
        elif auto and cur_m != seen_m:
            served_v, seen_m = cur_v, cur_m
            cooks += 1
        if served_v == BROKEN:
            # the latest version does not compile: every use says so (nothing of an earlier version is served)
            # until the file changes again; whether each use retries the compilation is left open
            try:
                _use(t, op, a, i, fresh[0], detail)
                ok = False
            except TemplateError:
                pass
            with NoTracing():
                cooks = COUNT['cook']
            if not ok:
                break
            continue
        exp = fresh[served_v]
        ok = ok and _use(t, op, a, i, exp, detail)
        # after any use, everything the instance holds belongs to that version, and nothing else
        with NoTracing():
            state = _observe_state(t)
            ok = ok and state == exp
            ok = ok and COUNT['cook'] == cooks
            if detail is not None:
                detail[-1].update({'state': state, 'expected': exp, 'cooks': COUNT['cook'], 'expected_cooks': cooks})
        if not ok:
            break
    return ok


def _ops(args, n):
    return [(args[3 * i], args[3 * i + 1], args[3 * i + 2]) for i in range(n)]


def history(o0: int, a0: int, m0: int, o1: int, a1: int, m1: int, o2: int, a2: int, m2: int,
            o3: int, a3: int, m3: int, o4: int, a4: int, m4: int, o5: int, a5: int, m5: int) -> bool:
    """
    pre: 0 <= o0 < 5 and 0 <= o1 < 5 and 0 <= o2 < 5 and 0 <= o3 < 5 and 0 <= o4 < 5 and 0 <= o5 < 5
    pre: 0 <= a0 < 3 and 0 <= a1 < 3 and 0 <= a2 < 3 and 0 <= a3 < 3 and 0 <= a4 < 3 and 0 <= a5 < 3
    pre: 0 <= m0 and 0 <= m1 and 0 <= m2 and 0 <= m3 and 0 <= m4 and 0 <= m5
    post: _
    """
    n = CFG.get('n', 4)
    # jobs split the space by the first operation(s)
    if 'o0' in CFG and o0 != CFG['o0']:
        return True
    if 'o1' in CFG and o1 != CFG['o1']:
        return True
    ops = _ops((o0, a0, m0, o1, a1, m1, o2, a2, m2, o3, a3, m3, o4, a4, m4, o5, a5, m5), n)
    return _res(run_history(ops))


# ---- one step from an arbitrary reachable state (histories of any length, by induction) -------------------
def _canonical(v, m, auto):
    """the representative of the state `compiled from version v when the file's modification time was m`:
    a newly constructed instance used once"""
    saved = FILES.get(PATH)
    FILES[PATH] = [VERSIONS[v], m]
    t = FT(PATH, auto_reload=auto)
    t.render()
    if saved is not None:
        FILES[PATH] = saved
    return t


def _equivalent(t, rep):
    """the two instances hold the same things: same attribute names; entry points with the same code object;
    every other value equal (the loader binding is per instance)"""
    with NoTracing():
        da, db = t.__dict__, rep.__dict__
        if sorted(da) != sorted(db):
            return False
        symbolic = []
        for k in da:
            x, y = da[k], db[k]
            if k == '_loader':
                continue
            if k == 'macros':     # the Macros view of this very instance
                if not (type(x) is type(y) and x.template is t and y.template is rep):
                    return False
                continue
            if k == '_v_last_read':
                symbolic.append((x, y))
                continue
            if callable(x) and hasattr(x, '__code__'):
                if not (hasattr(y, '__code__') and x.__code__ is y.__code__):
                    return False
                continue
            if x != y:
                return False
    for (x, y) in symbolic:
        if x != y:
            return False
    return True


def step(used: bool, v: int, m: int, change: int, cv: int, cm: int, op: int, a: int) -> bool:
    """
    pre: 0 <= v < 3 and 0 <= cv < 3 and 0 <= change < 3 and 2 <= op < 5 and 0 <= a < 3 and m >= 0 and cm >= 0
    post: _
    """
    # pre-state: the instance is new (never used), or it is the representative of `compiled from v at m`;
    # the file is what it was then, or has been modified since (written: version cv; touched), new mtime cm
    auto = CFG.get('auto_reload', True)
    fresh = STATE['fresh']
    FILES.clear()
    FILES[PATH] = [VERSIONS[pick([0, 1, 2], v)], m]
    COUNT['cook'] = 0
    if used:
        t = _canonical(pick([0, 1, 2], v), m, auto)
    else:
        t = FT(PATH, auto_reload=auto)
    cur_v, cur_m = pick([0, 1, 2], v), m
    if change != 0:
        if cm == m:
            return True
        cur_m = cm
        if change == 1:
            cur_v = pick([0, 1, 2], cv)
        FILES[PATH] = [VERSIONS[cur_v], cm]
    before = COUNT['cook']
    if not used or (auto and change != 0):
        exp_v, exp_m, exp_cooks = cur_v, cur_m, 1
    else:
        exp_v, exp_m, exp_cooks = pick([0, 1, 2], v), m, 0
    ok = _use(t, op, a, 0, fresh[exp_v])
    ok = ok and COUNT['cook'] - before == exp_cooks
    # post-state: equivalent to the representative of the state the oracle names -- so nothing of any earlier
    # version is left, and the next step starts from a state this harness also starts from
    rep = _canonical(exp_v, exp_m, auto)
    ok = ok and _equivalent(t, rep)
    with NoTracing():
        ok = ok and _observe_state(t) == fresh[exp_v]
    return _res(ok)


# ---------------------------------------------------------------------------------------------------
# loader resolution
# ---------------------------------------------------------------------------------------------------
DIRS = ['/sp/one', '/sp/two', '/sp/three']
SPECS = ['a.pt', 'a', ' a.pt ', 'sub/a.pt', 'sub/a', 'sub.d/a', 'a.txt', 'b', '/abs/a.pt', '/abs/a', 'pkg.res:t/a.pt',
         'pkg.res:t/a']


class Rec:
    """stands for the template class: records how the loader constructed it"""

    def __init__(self, spec, search_path=None, package_name=None, **kw):
        self.spec, self.search_path, self.package_name, self.kw = spec, search_path, package_name, kw


def expected_resolution(spec, dirs, ext, exists):
    """reference, from the documentation of TemplateLoader: -> ('file', path, package) | ('error',)"""
    spec = spec.strip()
    if ext is not None and '.' not in spec:
        spec = spec + ext
    if spec.startswith('/'):
        return ('file', spec, None)
    if ':' in spec:
        pkg, _, rest = spec.partition(':')
        return ('file', rest, pkg)
    for d in dirs:
        cand = d.rstrip('/') + '/' + spec
        if exists(cand):
            return ('file', cand, None)
    return ('error',)


def _matrix(bits, dirs, names):
    """existence of dirs x names from symbolic booleans"""
    table = {}
    i = 0
    for d in dirs:
        for n in names:
            table[d.rstrip('/') + '/' + n] = bits[i]
            i += 1
    return table


def resolve(e0: bool, e1: bool, e2: bool, e3: bool, e4: bool, e5: bool, s: int, s2: int) -> bool:
    """
    pre: 0 <= s < 12 and 0 <= s2 < 12
    post: _
    """
    ext = CFG.get('ext', '.pt')
    ndirs = CFG.get('dirs', 3)
    dirs = DIRS[:ndirs]
    spec = pick(SPECS, s)
    spec2 = pick(SPECS, s2)
    # candidate file names of the two specs (with and without the extension)
    names = []
    for sp in (spec, spec2):
        for nm in (sp.strip(), sp.strip() + (ext or '')):
            if not nm.startswith('/') and ':' not in nm and nm not in names:
                names.append(nm)
    bits = [e0, e1, e2, e3, e4, e5]
    if len(dirs) * len(names) > len(bits):
        # more candidates than symbolic bits: the last directory repeats the pattern of the first
        bits = bits + bits
    table = _matrix(bits, dirs, names)
    STATE['exists'] = lambda p: table.get(p, False)
    loader = ld.TemplateLoader(search_path=list(dirs) if ndirs != 1 or not CFG.get('str_path') else dirs[0],
                               default_extension=CFG.get('ext_arg', ext), mark=1)
    ok = True
    results = []
    for sp in (spec, spec2, spec):
        exp = expected_resolution(sp, dirs, ext, lambda p: table.get(p, False))
        try:
            r = loader.load(sp, Rec)
            got = ('file', r.spec, r.package_name)
            ok = ok and r.kw == {'mark': 1}
        except ValueError:
            r = None
            got = ('error',)
        ok = ok and got == exp
        results.append(r)
    # the same name gives the same instance
    ok = ok and results[0] is results[2]
    if spec != spec2 and results[0] is not None:
        ok = ok and results[0] is not results[1]
    return _res(ok)


class Rec2(Rec):
    """a second template class (the text-mode file class, say)"""


def bound(k0: int, k1: int, k2: int) -> bool:
    """
    pre: 0 <= k0 < 4 and 0 <= k1 < 4 and 0 <= k2 < 4
    post: _
    """
    # three requests for one name through one loader, each for one of two template classes, either directly
    # (load(name, cls)) or through a bound loader (bind(cls)(name), what load: expressions use): every result
    # is of the class asked for, and one (name, class) is one instance
    STATE['exists'] = lambda p: True
    loader = ld.TemplateLoader(search_path=['/a'], default_extension='.pt')
    ok = True
    seen = []
    for k in (k0, k1, k2):
        cls = Rec2 if k % 2 else Rec
        if k >= 2:
            r = loader.bind(cls)('x.pt')
        else:
            r = loader.load('x.pt', cls)
        ok = ok and type(r) is cls
        for c2, r2 in seen:
            if c2 is cls:
                ok = ok and r2 is r
        seen.append((cls, r))
    return _res(ok)


def zpt_loads(e0: bool, e1: bool, e2: bool, e3: bool, e4: bool, e5: bool, e6: bool, e7: bool,
              e8: bool, e9: bool, e10: bool, e11: bool, s0: int, s1: int, s2: int, f0: bool, f1: bool, f2: bool) -> bool:
    """
    pre: 0 <= s0 < 4 and 0 <= s1 < 4 and 0 <= s2 < 4
    post: _
    """
    # a history of loads through the public loader (real PageTemplateFile / PageTextTemplateFile instances,
    # real post_init): earlier loads must not change how later names resolve
    ext = CFG.get('ext', '.pt')
    dirs = DIRS[:CFG.get('dirs', 2)]
    names = ['a.pt', 'b.pt', 'c.txt', 'a']
    if ext is None:
        cands = list(names)
    else:
        cands = ['a.pt', 'b.pt', 'c.txt']
    bits = [e0, e1, e2, e3, e4, e5, e6, e7, e8, e9, e10, e11]
    table = _matrix(bits, dirs, names)
    STATE['exists'] = lambda p: table.get(p, False)
    given = list(dirs)
    loader = zl.TemplateLoader(search_path=given, default_extension=ext, auto_reload=True)
    ok = True
    seen = {}
    for (s, text) in ((s0, f0), (s1, f1), (s2, f2))[:CFG.get('loads', 3)]:
        spec = pick(names, s)
        fmt = 'text' if text else None
        exp = expected_resolution(spec, dirs, ext, lambda p: table.get(p, False))
        try:
            if CFG.get('getitem') and not text:
                r = loader[spec]
            else:
                r = loader.load(spec, fmt)
            got = ('file', r.filename, None)
            ok = ok and type(r) is (zt.PageTextTemplateFile if text else zt.PageTemplateFile)
            ok = ok and r.auto_reload is True
        except ValueError:
            r = None
            got = ('error',)
        ok = ok and got == exp
        if (spec, text) in seen:
            ok = ok and seen[(spec, text)] is r
        elif r is not None:
            for other in seen.values():
                ok = ok and other is not r
        if r is not None:
            seen[(spec, text)] = r
        # the search path the caller handed over is the caller's
        ok = ok and given == list(dirs) and list(loader.search_path) == list(dirs)
    return _res(ok)


# ---- load: inside a file template looks next to that template first --------------------------------------
LOAD_BODY = b'<div tal:define="t load: inc.pt">${t.filename}</div>'
LOAD_BODY_DYN = b'<div tal:define="t load: ${name}">${t.filename}</div>'


def load_expr(e0: bool, e1: bool, e2: bool, e3: bool, e4: bool, e5: bool, w: int) -> bool:
    """
    pre: 0 <= w < 3
    post: _
    """
    # the template lives in directory `home` (one of the search directories or a directory of its own)
    homes = ['/sp/two', '/home/x', '/sp/one']
    home = pick(homes, w)
    dirs = DIRS[:CFG.get('dirs', 2)]
    dyn = CFG.get('dynamic', False)
    target = 'inc.pt'
    where = [home] + [d for d in dirs]
    bits = [e0, e1, e2, e3, e4, e5]
    table = {}
    i = 0
    for d in where:
        p = d + '/' + target
        if p not in table:
            table[p] = bits[i]
            i += 1
    path = home + '/page.pt'
    FILES.clear()
    FILES[path] = [LOAD_BODY_DYN if dyn else LOAD_BODY, 5]
    STATE['exists'] = lambda p: table.get(p, False)
    t = FT(path, search_path=list(dirs))
    exp = None
    for d in where:
        if table[d + '/' + target]:
            exp = d + '/' + target
            break
    try:
        out = t.render(name=target)
        ok = exp is not None and out == '<div>%s</div>' % exp
        # and again: the same instance is served for the same name
        first = t._loader(target)
        ok = ok and first is t._loader(target) and first.filename == exp and type(first) is FT
    except ValueError:
        ok = exp is None
    return _res(ok)


def explain(cfg, *args):
    out = {'args': list(args), 'cfg': {k: v for k, v in cfg.items()}}
    if len(args) == 18:
        detail = []
        try:
            run_history(_ops(args, cfg.get('n', 4)), detail)
        except Exception as exc:     # noqa
            detail.append(repr(exc))
        out['history'] = detail
    return out


# ---- two files: a page that uses a macro template through load:, both may change -------------------------
PAGE = '/model/site/page.pt'
PART = '/model/site/part.pt'
PAGE_VERSIONS = [
    b'<html><x metal:use-macro="load: part.pt"/>[a0]</html>',
    b'<html>[a1]<x metal:use-macro="load: part.pt"><i metal:fill-slot="s">F</i></x></html>',
]
PART_VERSIONS = [
    b'<p>b0<b metal:define-slot="s">d0</b></p>',
    b'<section>b1</section>',
]


def _fresh2(pv, qv):
    FILES.clear()
    FILES[PAGE] = [PAGE_VERSIONS[pv], 1]
    FILES[PART] = [PART_VERSIONS[qv], 1]
    return FT(PAGE, auto_reload=True).render()


def prepare2():
    STATE['fresh2'] = {}
    for pv in (0, 1):
        for qv in (0, 1):
            STATE['fresh2'][(pv, qv)] = _fresh2(pv, qv)


def history2(o0: int, a0: int, m0: int, o1: int, a1: int, m1: int, o2: int, a2: int, m2: int,
             o3: int, a3: int, m3: int) -> bool:
    """
    pre: 0 <= o0 < 5 and 0 <= o1 < 5 and 0 <= o2 < 5 and 0 <= o3 < 5
    pre: 0 <= a0 < 2 and 0 <= a1 < 2 and 0 <= a2 < 2 and 0 <= a3 < 2
    pre: 0 <= m0 and 0 <= m1 and 0 <= m2 and 0 <= m3
    post: _
    """
    # operations: 0 write page version a, 1 write part version a, 2 touch page, 3 touch part, 4 render the page
    n = CFG.get('n', 3)
    if 'o0' in CFG and o0 != CFG['o0']:
        return True
    ops = ((o0, a0, m0), (o1, a1, m1), (o2, a2, m2), (o3, a3, m3))[:n]
    FILES.clear()
    FILES[PAGE] = [PAGE_VERSIONS[0], 5]
    FILES[PART] = [PART_VERSIONS[0], 6]
    cur = {PAGE: 0, PART: 0}
    used = {PAGE: [5], PART: [6]}
    seen = {PAGE: None, PART: None}
    COUNT['cook'] = 0
    cooks = 0
    t = FT(PAGE, auto_reload=True)
    ok = True
    for (op, a, m) in ops + ((4, 0, 0),):
        if op < 4:
            path = PAGE if op in (0, 2) else PART
            for u in used[path]:
                if m == u:
                    return True
            used[path].append(m)
            if op == 0:
                cur[PAGE] = 0 if a == 0 else 1
                FILES[PAGE] = [PAGE_VERSIONS[cur[PAGE]], m]
            elif op == 1:
                cur[PART] = 0 if a == 0 else 1
                FILES[PART] = [PART_VERSIONS[cur[PART]], m]
            else:
                FILES[path] = [FILES[path][0], m]
            continue
        got = t.render()
        for path in (PAGE, PART):
            if seen[path] is None or FILES[path][1] != seen[path]:
                cooks += 1
                seen[path] = FILES[path][1]
        ok = ok and got == STATE['fresh2'][(cur[PAGE], cur[PART])] and COUNT['cook'] == cooks
        if not ok:
            break
    return _res(ok)
