"""C02 harness: a hostile value (k symbolic code points) inserted at one site of a compiled
template; structural oracle on the rendered text (DESIGN.md 4, C02)."""
from chameleon import PageTemplate

CFG = {}
STATE = {}
MARK = 'QzQzQ'

# site -> (template text, quote character of the site or None, escaped?)
SITES = {
    'text': ('<p>a${v}b</p>', None, True),
    'attr_dq': ('<p t="a${v}b">x</p>', '"', True),
    'attr_sq': ("<p t='a${v}b'>x</p>", "'", True),
    'tal_attr': ('<p tal:attributes="t v">x</p>', '"', True),
    'tal_attr_sq_static': ("<p t='s' tal:attributes=\"t v\">x</p>", "'", True),
    'dict_attr': ('<p tal:attributes="d">x</p>', '"', True),
    'comment': ('<!-- a${v}b -->', None, True),
    'content': ('<p tal:content="v">x</p>', None, True),
    'replace': ('<i>l</i><p tal:replace="v">x</p><i>r</i>', None, True),
    'string_content': ('<p tal:content="string:a${v}b">x</p>', None, True),
    'string_attr': ('<p tal:attributes="t string:a${v}b">x</p>', '"', True),
    'i18n_name': ('<p i18n:translate="">a <b i18n:name="n" tal:content="v">x</b> c</p>', None, True),
    'translated_msg': ('<p tal:content="m">x</p>', None, True),
    'translated_msg_interp': ('<p>${m}</p>', None, True),
    # dynamic content offered for translation: what the translation function returns for the (harmless) message
    # id is the hostile text
    'content_translated': ('<p tal:content="key" i18n:translate="">x</p>', None, True),
    'replace_translated': ('<i>l</i><p tal:replace="key" i18n:translate="">x</p><i>r</i>', None, True),
    # attributes written without quotes in the source (a computed value is written in double quotes)
    'attr_unquoted_interp': ('<p t=${v} u=k>x</p>', '"', True),
    'tal_attr_unquoted_static': ('<p t=s u=k tal:attributes="t v">x</p>', '"', True),
    # inside a slot filler (a function of its own with its own conversion routines)
    'filler_text': ('<div><p metal:define-macro="m">M<b metal:define-slot="s">d</b></p>|<u metal:use-macro="macros[\'m\']">'
                    '<i metal:fill-slot="s">a${v}b</i></u></div>', None, True),
    'filler_attr': ('<div><p metal:define-macro="m">M<b metal:define-slot="s">d</b></p>|<u metal:use-macro="macros[\'m\']">'
                    '<i metal:fill-slot="s" t="a${v}b">x</i></u></div>', '"', True),
    # a string: expression inside an interpolation
    'string_in_interp_text': ('<p>${string:a${v}b}</p>', None, True),
    'string_in_interp_attr': ('<p t="${string:a${v}b}">x</p>', '"', True),
    # opt-outs: value must pass through unchanged
    'structure_kw': ('<p tal:content="structure v">x</p>', None, False),
    'structure_expr': ('<p>${structure: v}</p>', None, False),
    'html_method': ('<p>${h}</p>', None, False),
    'cdata': ('<p><![CDATA[a${v}b]]></p>', None, False),
    'five': ('<p t="${v}" u=\'${v}\' tal:attributes="w v">${v}<!-- ${v} --></p>', 'multi', True),
}


class SubStr(str):
    pass


def make_substr(v):
    """SubStr(v); under CrossHair a proxy that reports SubStr as its type (str.__new__ would realise)"""
    try:
        from crosshair.tracers import is_tracing
        if is_tracing():
            from vlib.chsym import symbolic_str_subclass
            if 'sub' not in STATE:
                STATE['sub'] = symbolic_str_subclass(SubStr)
            return STATE['sub'][1](v)
    except ImportError:
        pass
    return SubStr(v)


class Hostile:
    def __init__(self, s):
        self.s = s

    def __str__(self):
        return self.s


class Html:
    def __init__(self, s):
        self.s = s

    def __html__(self):
        return self.s


class IntLabel(int):
    """number subclass with its own string form (e.g. an IntEnum member with a label)"""

    def __str__(self):
        return self.label

    __repr__ = __str__


class FloatLabel(float):
    def __str__(self):
        return self.label

    __repr__ = __str__


class Msg:
    """message-like object: not str/number/__html__; its translation is the hostile text"""

    def __init__(self, s):
        self.s = s

    def __str__(self):
        return 'untranslated'


def _mutate(name):
    from chameleon import compiler as cc
    import ast
    if name in ('no_gt_escape', 'no_quote_escape', 'gate_narrow'):
        src = cc.emit_func_convert_and_escape
        # the template() decorator keeps the source in a closure; rebuild from the module source
        import inspect
        import re
        modsrc = inspect.getsource(cc)
        i = modsrc.index('emit_func_convert_and_escape = template(')
        j = modsrc.index('class EmitText')
        code = modsrc[i:j]
        if name == 'no_gt_escape':
            code = code.replace("target = target.replace('>', '&gt;')", "pass")
        elif name == 'no_quote_escape':
            code = code.replace("target = target.replace(quote, quote_entity)", "pass")
        ns = dict(cc.__dict__)
        exec(code, ns)
        cc.emit_func_convert_and_escape = ns['emit_func_convert_and_escape']
        if name == 'gate_narrow':
            real = cc.Compiler.visit_Module

            def visit_Module(self, node):
                body = real(self, node)
                for st in body:
                    if isinstance(st, ast.Assign) and getattr(st.targets[0], 'id', '') == 'g_re_needs_escape':
                        st.value = cc.template(r"re.compile(r'[&<\"\']').search", mode='eval')
                return body
            cc.Compiler.visit_Module = visit_Module
    elif name == 'digest_ignores_template_kind':
        from vlib.mutants import digest_ignores_template_kind
        digest_ignores_template_kind()
    else:
        raise KeyError(name)


def prepare(cfg):
    if cfg.get('mutant'):
        _mutate(cfg['mutant'])
    text, quote, escaped = SITES[cfg['site']]
    if cfg.get('shared_cache'):
        # the same source compiled as a text template first, both through one on-disk module cache
        from chameleon import PageTextTemplate
        from vlib.cachepair import compile_through_one_cache
        STATE['tpl'] = compile_through_one_cache([(PageTextTemplate, text, {}),
                                                  (PageTemplate, text, {'translate': _translate})])[1]
    else:
        STATE['tpl'] = PageTemplate(text, translate=_translate)
    if cfg.get('kind') == 'int':
        base = render(987654321)
        STATE['parts'] = base.split('987654321')
    else:
        base = render(MARK)
        STATE['parts'] = base.split(MARK)
    STATE['quote'] = quote
    STATE['escaped'] = escaped


def _translate(msgid, domain=None, mapping=None, context=None, target_language=None, default=None):
    if isinstance(msgid, Msg):
        return msgid.s
    if isinstance(msgid, str) and msgid == 'MSGKEY':
        return STATE.get('cur', 'MSGKEY')
    if default is None:
        default = msgid
    if mapping and isinstance(default, str):
        for k in mapping:
            default = default.replace('${%s}' % k, str(mapping[k]))
    return default


def render(v):
    kind = CFG.get('kind', 'str')
    kw = {}
    if kind == 'str':
        val = v
    elif kind == 'substr':
        val = make_substr(v)
    elif kind == 'object':
        val = Hostile(v)
    elif kind == 'bytes':
        val = b'raw'
        kw['__decode'] = lambda b: v        # whatever the bytes decode to (codecs are a C boundary)
    elif kind == 'int':
        val = v                              # v is an int here (marker: 987654321)
    elif kind == 'intsub':
        val = IntLabel(7)
        val.label = v
    elif kind == 'floatsub':
        val = FloatLabel(1.5)
        val.label = v
    else:
        raise KeyError(kind)
    STATE['cur'] = v
    if kind == 'int':
        return STATE['tpl'].render(v=val, d={'k': val}, h=val, m=val)
    return STATE['tpl'].render(v=val, d={'k': val}, h=Html(v), m=Msg(v), key='MSGKEY', **kw)


ENTITIES = (('&amp;', '&'), ('&lt;', '<'), ('&gt;', '>'), ('&quot;', '"'), ('&#34;', '"'), ('&#39;', "'"),
            ('&apos;', "'"))


def unescape_region(region, quote):
    """Independent reader: returns the un-escaped text, or None if the region contains a raw markup
    character, the site's quote, or an '&' that does not start an entity the escaper may emit."""
    out = ''
    i = 0
    n = len(region)
    while i < n:
        ch = region[i]
        if ch == '<' or ch == '>':
            return None
        if quote is not None and ch == quote:
            return None
        if ch == '&':
            hit = False
            for ent, plain in ENTITIES:
                if region[i:i + len(ent)] == ent:
                    out = out + plain
                    i += len(ent)
                    hit = True
                    break
            if hit:
                continue
            # numeric character reference &#N; (the escaper writes the quote entity of a text
            # site, NUL, as &#0;)
            if region[i:i + 2] == '&#':
                j = i + 2
                num = 0
                digits = 0
                while j < n and '0' <= region[j] <= '9' and digits < 8:
                    num = num * 10 + (ord(region[j]) - 48)
                    j += 1
                    digits += 1
                if digits > 0 and j < n and region[j] == ';':
                    out = out + chr(num)
                    i = j + 1
                    continue
            return None
        out = out + ch
        i += 1
    return out


def check(v):
    out = render(v)
    parts = STATE['parts']
    kind = CFG.get('kind', 'str')
    want = v if kind != 'int' else str(v)
    # skeleton of the harmless render, with one inserted region per occurrence of the marker
    pos = 0
    if not out.startswith(parts[0]):
        return False
    pos = len(parts[0])
    quotes = STATE['quote']
    for idx in range(1, len(parts)):
        nxt = parts[idx]
        # the region ends where the next literal part starts; search from the right for the last part
        if idx == len(parts) - 1:
            if not out.endswith(nxt) or len(out) - len(nxt) < pos:
                return False
            end = len(out) - len(nxt)
        else:
            end = out.find(nxt, pos) if nxt else pos
            if end < 0:
                return False
        region = out[pos:end]
        if STATE['escaped']:
            q = quotes
            if quotes == 'multi':
                q = ['"', "'", '"', None, None][idx - 1]
            plain = unescape_region(region, q)
            if plain is None or plain != want:
                # a literal part may also occur inside the region's escaped text only if the value
                # produced it; retry with the next occurrence
                ok = False
                if idx != len(parts) - 1 and nxt:
                    e2 = out.find(nxt, end + 1)
                    while e2 >= 0 and not ok:
                        plain = unescape_region(out[pos:e2], q)
                        if plain is not None and plain == want:
                            ok = True
                            end = e2
                        else:
                            e2 = out.find(nxt, e2 + 1)
                if not ok:
                    return False
        else:
            if region != want:
                return False
        pos = end + len(nxt)
    return True


def esc(c0: int, c1: int, c2: int, c3: int, c4: int = 0) -> bool:
    """
    pre: 0 <= c0 < 0x110000 and 0 <= c1 < 0x110000 and 0 <= c2 < 0x110000 and 0 <= c3 < 0x110000 and 0 <= c4 < 0x110000
    post: _
    """
    k = CFG.get('k', 1)
    v = ''
    cs = (c0, c1, c2, c3, c4)
    if CFG.get('kind') == 'int':
        v = c0 - c1                          # any int in (-0x110000, 0x110000)
    else:
        for i in range(k):
            v = v + chr(cs[i])
    ok = check(v)
    return (not ok) if CFG.get('negate') else ok


def explain(cfg, *args):
    v = ''.join(chr(c) for c in args[:cfg.get('k', 1)]) if cfg.get('kind') != 'int' else args[0] - args[1]
    return {'value': v, 'rendered': render(v), 'skeleton': STATE['parts']}
