"""C18 -- template-language markup never leaks and is independent of prefix spelling (DESIGN.md 4, C18)."""
import random

from vlib.tprog import py

H = 'checks.hC18'
FOREIGN = [['data-x', '1'], ['data-x-y', '2'], ['foo:bar', '3'], ['xmlns:foo', 'urn:foo'], ['data-foo-baz', '4'],
           ['data-tal', '5']]
MUST = ['data-x="1"', 'data-x-y="2"', 'foo:bar="3"', 'xmlns:foo="urn:foo"', 'data-foo-baz="4"', 'data-tal="5"']


def I(src):   # noqa: E743
    return {'interp': py(src)}


def el(tag, *children, **kw):
    d = {'tag': tag, 'children': list(children)}
    d.update(kw)
    return d


def programs():
    out = []
    add = lambda label, prog, vars_, sp, **kw: out.append((label, prog, vars_, sp, kw))   # noqa: E731
    ALL = ['default', 'renamed-root', 'renamed-each', 'data']
    root = lambda *c: el('div', *c, static=list(FOREIGN), close_indent=0)   # noqa: E731
    add('content-attrs', root(el('p', 'x', static=[['class', 'c'], ['data-k', 'v']], content=['text', py('v')],
                                 attributes=[['title', py('v')]])), [['v', 'int', 0]], ALL)
    add('define-condition-repeat', root(el('li', I('x + d'), indent=2, define=[['local', 'd', py('10')]],
                                           condition=py('cv'), repeat=['x', py('seq')])),
        [['cv', 'bool', 0], ['seq', 'len', 1]], ALL)
    add('switch-case-replace-omit', root(el('p', el('b', 'one', case=py('1'), omit=''),
                                            el('i', 'dflt', case=py('default'), replace=['text', py("'R'")]),
                                            switch=py('sv'))), [['sv', 'int', 0]], ALL)
    add('on-error', root(el('p', 'a', I('L(0)'), onerror=['text', py("'E'")], static=[['id', 'k']])), [[0, 'out3', 0]], ALL)
    add('i18n', root(el('p', 'Hello ', el('b', I('v'), i18n_name='n'), i18n_translate='', static=[['title', 'T']],
                        i18n_attributes='title', i18n_domain='d')), [['v', 'int', 0]], ALL)
    add('metal', root(el('section', 'a', el('b', 'dflt', define_slot='s'), define_macro='m'),
                      el('u', el('em', 'F', I('v'), fill_slot='s'), use_macro="macros['m']")), [['v', 'int', 0]],
        ['default', 'renamed-root'])
    add('meta-interpolation', root(el('p', I('v'), el('q', I('v'), interp_switch='on'), interp_switch='off')),
        [['v', 'int', 0]], ['default', 'renamed-root', 'data'])
    # namespace-element form: <tal:p content=..> == <p tal:omit-tag="" tal:content=..>
    add('element-form', root(el('p', 'x', omit='', ns_element=True, content=['text', py('v')]),
                             el('q', I('d'), indent=2, omit='', ns_element=True, define=[['local', 'd', py('v + 1')]],
                                condition=py('cv'))),
        [['v', 'int', 0], ['cv', 'bool', 0]], ['default', 'element', 'element-renamed'])
    add('element-form-on-error', root('a', el('p', 'x', I('L(0)'), omit='', ns_element=True, onerror=['text', py("'E'")]), 'z'),
        [[0, 'out3', 0]], ['default', 'element', 'element-renamed'])
    # an element in a language namespace never writes its tag, whatever an omit-tag expression on it says
    add('element-form-omit-expression', root('a', el('block', 'x', I('v'), omit=py('ov'), ns_element=True, keep_omit=True), 'z',
                                             el('k', 'y', omit=py('ov'), ns_element=True, keep_omit=True,
                                                content=['text', py('v')])),
        [['v', 'int', 0], ['ov', 'bool', 0]], ['element', 'element-renamed'])
    # inside a declared default namespace, one element mixing data-form and prefix-form statements
    xh = el('div', el('p', 'x', static=[['id', 'k'], ['class', 'c']], content=['text', py('v')],
                      attributes=[['title', py('v')]], i18n_domain='dd', data_for=['content', 'i18n_domain']),
            el('q', 'y', static=[['id', 'k2']], define=[['local', 'w', py('v + 1')]], content=['text', py('w')],
               data_for=['define']),
            static=[['xmlns', 'http://www.w3.org/1999/xhtml'], ['data-x', '1']], close_indent=0)
    out.append(('default-namespace-mixed-forms', xh, [['v', 'int', 0]], ['default', 'renamed-root'],
                {'data_option': True, 'must_contain': ['xmlns="http://www.w3.org/1999/xhtml"', 'id="k"', 'id="k2"', 'data-x="1"']}))
    # attributes that share one (namespace, name): written twice, or lang next to xml:lang -- the statements
    # after them are still statements and nothing else is lost
    out.append(('repeated-attribute-names', el('div', el('p', 'x', static=[['class', 'a'], ['class', 'b'], ['id', 'k']],
                                                         content=['text', py('v')], attributes=[['title', py('v')]]),
                                               el('q', 'y', static=[['xml:lang', 'en'], ['lang', 'en'], ['dir', 'ltr']],
                                                  omit=py('False'), keep_omit=True, define=[['local', 'w', py('v')]]),
                                               static=[['data-x', '1']], close_indent=0), [['v', 'int', 0]],
                ['default', 'renamed-root', 'renamed-each'],
                {'must_contain': ['class="a"', 'class="b"', 'id="k"', 'xml:lang="en"', ' lang="en"', 'dir="ltr"', 'data-x="1"']}))
    # the option alone must leave ordinary data-* attributes (and prefixed statements) alone
    add('data-option-with-prefixed-statements', root(el('p', 'x', static=[['data-a-b', 'q'], ['class', 'c']],
                                                        content=['text', py('v')], attributes=[['id', py('v')]])),
        [['v', 'int', 0]], ['default', 'renamed-root'], data_option=True)
    # declaration on a self-closing element must not affect its siblings
    add('empty-tag-declaration', root(el('br', static=[['xmlns:q', 'urn:q']]) if False else
                                      {'tag': 'br', 'static': [['xmlns:tal', 'urn:other']], 'children': None},
                                      el('p', 'x', content=['text', py('v')])), [['v', 'int', 0]],
        ['default', 'renamed-each'])
    # restricted_namespace=False: an undeclared foreign prefix is tolerated and copied, the language prefixes
    # still work (default spelling and renamed prefixes declared on the root)
    loose = el('div', el('p', 'x', static=[['zz:k', 'v'], ['class', 'c']], content=['text', py('v')],
                         attributes=[['title', py('v')]]),
               el('zz:w', 'in ', I('v'), static=[['zz:j', '2']]),
               static=[['data-x', '1'], ['qq:bar', '3']], close_indent=0)
    out.append(('unrestricted-namespace', loose, [['v', 'int', 0]], ['default', 'renamed-root'],
                {'options': {'restricted_namespace': False}, 'must_contain': ['zz:k="v"', 'qq:bar="3"', '<zz:w zz:j="2">', 'data-x="1"']}))
    return out


def plan(tier, seed):
    quick = tier == 'quick'
    jobs = []
    for label, prog, vars_, sp, kw in programs():
        j = {'prog': prog, 'vars': vars_, 'label': label, 'spellings': sp, 'must_contain': MUST}
        j.update(kw)
        jobs.append(j)
    # the C01 grammar (single statement-carrying elements in seeded attribute orders, nestings, switch/case) and
    # C09's generated METAL pairs, re-spelled
    from checks import C01, C09
    c01 = C01.plan(tier, seed)['families'][0]['jobs']
    step = 8 if quick else 3
    for k, cj in enumerate(c01[::step]):
        prog = dict(cj['prog'], static=list(FOREIGN))
        jobs.append({'prog': prog, 'vars': cj['vars'], 'label': 'c01:%d:%s' % (k, cj['label'][:60]),
                     'spellings': ['default', 'renamed-root', 'renamed-each', 'data'], 'must_contain': MUST})
    for k, (label, lib, tree, vars_) in enumerate(C09.generated(12 if quick else 150, seed)):
        prog = dict(tree, static=list(FOREIGN))
        vs = [[n, {'len': 'len', 'int': 'int', 'bool': 'bool'}[kd], sl] for n, kd, sl in vars_]
        jobs.append({'prog': prog, 'vars': vs, 'label': 'c09:' + label, 'spellings': ['default', 'renamed-root'],
                     'must_contain': MUST})
    by = {j['label']: j for j in jobs}
    fam = dict(name='spelling_independence', module=H, fn='H', jobs=jobs, timeout=300 if quick else 900, batch=2,
               vacuity=2, program_key='prog',
               mutants=[{'name': 'xmlns_decl_kept', 'cfg': by['content-attrs']},
                        {'name': 'empty_tag_shares_scope', 'cfg': by['empty-tag-declaration']},
                        {'name': 'data_conversion_any_prefix', 'cfg': by['content-attrs']}])
    return dict(
        level='translation_validation',
        functions=['chameleon.parser:parse_tag', 'chameleon.parser:unpack_attributes', 'chameleon.parser:update_namespace',
                   'chameleon.parser:ElementParser.visit_start_tag', 'chameleon.parser:ElementParser.visit_empty_tag',
                   'chameleon.tal:prepare_attributes', 'chameleon.zpt.program:convert_data_attributes',
                   'chameleon.zpt.program:validate_attributes', 'chameleon.zpt.program:MacroProgram.visit_element'],
        bounds=('%d templates (12 hand-written, one with attributes that share one namespace and name: TAL statements, on-error, i18n, METAL, meta:interpolation; the rest taken from the C01 grammar and C09\'s generated METAL pairs) each written in 2-4 spellings: '
                'default prefixes, renamed prefixes declared on the root or on each element, data-<prefix>-<name> '
                'attributes (option on), namespace-element form; foreign attributes mixed in (data-x, data-x-y, '
                'data-<declared foreign prefix>-name, a declared foreign namespace, data-tal; one template with restricted_namespace=False and undeclared foreign prefixes). All spellings must render '
                'identically for all bindings (decided by the solver), no language attribute/prefix/namespace URI may '
                'appear and every foreign attribute must. Outside: symbolic prefix strings (prefixes become dict keys), '
                'default-namespace (xmlns="...tal") documents.' % len(jobs)),
        assumptions=['metamorphic: both sides are the implementation; the generator guarantees the relation between '
                     'spellings; output scanned by an independent regular expression for language markup'],
        families=[fam],
    )
