"""C15 -- the on-disk module cache is sound and crash-safe (DESIGN.md 4, C15)."""
H = 'checks.hC15'


def plan(tier, seed):
    quick = tier == 'quick'
    famC = dict(name='crash_points', module=H, fn='crash', jobs=[{}], timeout=900, vacuity=1,
                mutants=[{'name': 'temp_under_final_name', 'cfg': {}}, {'name': 'rename_before_close', 'cfg': {}}])
    famW = dict(name='two_writers', module=H, fn='two_writers', jobs=[{'n': 10 if quick else 12}],
                timeout=1200 if quick else 3600, vacuity=1,
                mutants=[{'name': 'temp_under_final_name', 'cfg': {'n': 8}}])
    famK = dict(name='cache_key', module=H, fn='key',
                jobs=[{'mode': 'option'}, {'mode': 'body'}, {'mode': 'body_xml'}, {'mode': 'class'}, {'mode': 'filename'}], timeout=900,
                vacuity=1, mutants=[{'name': 'digest_basename_only', 'cfg': {'mode': 'filename'}},
                                    {'name': 'digest_drops_strict', 'cfg': {'mode': 'option'}}])
    return dict(
        level='model_checking',
        functions=['chameleon.loader:ModuleLoader.build', 'chameleon.loader:ModuleLoader.get',
                   'chameleon.template:BaseTemplate.digest', 'chameleon.template:BaseTemplate._get_module_name',
                   'chameleon.template:BaseTemplateFile._get_module_name', 'chameleon.zpt.template:PageTemplate.digest',
                   'chameleon.template:get_pkg_digest'],
        bounds=('store protocol: the real ModuleLoader.build instrumented at every statement; crash at every statement '
                'boundary (k <= 40 covers the whole function) with every flushed prefix (cut <= 64 >= module size) of the '
                'buffered data, then the real ModuleLoader.get as the later process; two writers (separate processes: the '
                'lock is per process) of the same entry with different content, all interleavings of their file-system '
                'events for %d scheduling decisions (each writer performs 6 events), a reader after every event. Key: '
                'real digest()/_get_module_name() with hashlib replaced by an injective recorder; two configurations '
                'differing in exactly one of 9 options / the body (also XML documents differing only in line endings) / the class / the directory or name of the '
                'file must get different module file names. Outside: power loss (rename modelled atomic, as POSIX '
                'promises for a process crash), py_compile\'s own write (stdlib), sys.modules reuse, options that are '
                'callables or class-level (tokenizer, default_marker, expression_types).' % (10 if quick else 12)),
        assumptions=['perfect-hash assumption for sha1/sha256 (digest = the update stream; truncation kept injective)',
                     'model file system: names -> inodes, buffered writes reach the disk at flush/close or partially at '
                     'a crash; rename/unlink atomic', 'mkstemp returns unique names'],
        families=[famC, famW, famK],
    )
