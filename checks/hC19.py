"""C19 harness: strict mode only changes *when* an invalid expression is reported."""
from chameleon import PageTemplate
from chameleon.exc import ExpressionError

from checks import hG
from vlib import refsem
from vlib import tprog

CFG = {}
N = hG.N
STATE = {}


def _mutate(name):
    from chameleon import compiler as cc
    import inspect
    import textwrap
    if name == 'nonstrict_swallows':
        src_fn = cc.ExpressionTransform.__call__
        code = textwrap.dedent(inspect.getsource(src_fn)).replace('ast.Raise(exc=load("__exc"))', 'ast.Pass()')
        assert code != textwrap.dedent(inspect.getsource(src_fn))
        ns = dict(src_fn.__globals__)
        exec(code, ns)
        cc.ExpressionTransform.__call__ = ns['__call__']
    elif name == 'strict_ignored':
        real = cc.ExpressionTransform.__init__

        def __init__(self, engine_factory, cache, visitor, strict=True):
            real(self, engine_factory, cache, visitor, strict=False)
        cc.ExpressionTransform.__init__ = __init__
    elif name == 'tokenref_first_site':
        src_fn = cc.ExpressionTransform.__call__
        code = textwrap.dedent(inspect.getsource(src_fn)).replace(
            'p = pickle.dumps(exc, -1)',
            'p = self.cache.setdefault(("exc", str(exc.token)), pickle.dumps(exc, -1))')
        assert code != textwrap.dedent(inspect.getsource(src_fn))
        ns = dict(src_fn.__globals__)
        exec(code, ns)
        cc.ExpressionTransform.__call__ = ns['__call__']
    else:
        raise KeyError(name)


def sites(prog):
    """planted invalid expressions: site number -> source text, in document order"""
    found = {}

    def ex(e):
        if isinstance(e, dict):
            if 'py' in e and 'site' in e:
                found[e['site']] = e['py']
            for v in e.values():
                ex(v)
        elif isinstance(e, list):
            for v in e:
                ex(v)
    ex(prog)
    return found


def prepare(cfg):
    if cfg.get('mutant'):
        _mutate(cfg['mutant'])
    if 'prog' not in cfg:
        return
    hG.CFG.clear()
    hG.CFG.update({k: v for k, v in cfg.items() if k not in ('mutant', 'negate')})
    hG.CFG['options'] = {'strict': False}
    hG.prepare(hG.CFG)
    text = hG.STATE['text']
    STATE['text'] = text
    # positions are reported against the text the tokenizer saw (CRLF / CR -> LF outside XML mode)
    norm = text.replace('\r\n', '\n').replace('\r', '\n')
    planted = sites(cfg['prog'])
    # offset of the k-th planted site = k-th occurrence of its text, in document order
    offs = {}
    pos = 0
    for k in sorted(planted):
        i = norm.index(planted[k], pos)
        offs[k] = i
        pos = i + len(planted[k])
    # an expression that is empty after its type prefix: the reported token is the empty text behind the prefix
    STATE['tokens'] = {k: ('' if planted[k] == 'python:' else planted[k].strip()) for k in planted}
    for k in offs:
        if planted[k] == 'python:':
            offs[k] += len('python:')
    STATE['offsets'] = offs
    STATE['locations'] = {}
    for k in offs:
        j = offs[k] + (0 if planted[k] == 'python:' else (len(planted[k]) - len(planted[k].lstrip())))
        before = norm[:j]
        STATE['locations'][k] = (before.count('\n') + 1, len(before) - (before.rfind('\n') + 1))
    STATE['planted'] = planted
    # strict construction: must fail iff something is planted, at compile time, with the first site's token
    try:
        PageTemplate(text, strict=True)
        STATE['strict'] = ('ok',)
    except ExpressionError as exc:
        STATE['strict'] = ('invalid', str(exc.token), exc.offset, getattr(exc.token, 'location', None))
    except Exception as exc:
        STATE['strict'] = ('exc', type(exc).__name__)
    if not planted:
        STATE['strict_tpl'] = PageTemplate(text, strict=True)


def check(mk):
    planted = STATE['planted']
    if planted:
        st = STATE['strict']
        first = min(planted)
        if st[0] != 'invalid' or st[1] != STATE['tokens'][first] or st[2] != STATE['offsets'][first]:
            return False
        if st[3] != STATE['locations'][first]:
            return False                      # line / column of the strict report
        if hG.STATE.get('compile_error'):
            return False                      # non-strict construction must succeed
    elif STATE['strict'] != ('ok',):
        return False
    ref = hG.run_ref(mk())
    eng = hG.run_engine(mk())
    if ref[0] == 'exc' and ref[1] == 'InvalidExpression':
        # the reference reached planted site k -> the same ExpressionError, located at that site
        k = ref[4][0]
        return eng[0] == 'exc' and eng[1] == 'ExpressionError' and \
            eng[3] == (STATE['tokens'][k], STATE['offsets'][k]) and eng[4] == STATE['locations'][k]
    if not hG._agree1(eng, ref):
        return False
    if not planted:
        # valid template: the strictly compiled instance renders identically
        keep = hG.STATE['template']
        hG.STATE['template'] = STATE['strict_tpl']
        try:
            eng2 = hG.run_engine(mk())
        finally:
            hG.STATE['template'] = keep
        return eng2[:3] == eng[:3]
    return True


def H(i0: int, i1: int, i2: int, i3: int, i4: int, i5: int,
      b0: bool, b1: bool, b2: bool, b3: bool, b4: bool, b5: bool) -> bool:
    """
    pre: 0 <= i0 < N[0] and 0 <= i1 < N[1] and 0 <= i2 < N[2]
    pre: 0 <= i3 < N[3] and 0 <= i4 < N[4] and 0 <= i5 < N[5]
    post: _
    """
    ok = check(lambda: hG.bind((i0, i1, i2, i3, i4, i5), (b0, b1, b2, b3, b4, b5)))
    return (not ok) if CFG.get('negate') else ok


def explain(cfg, *args):
    if 'prog' not in cfg:
        return {'args': list(args)}
    b = hG.bind(args[:6], args[6:])
    return {'template': STATE['text'], 'strict': STATE['strict'], 'offsets': STATE['offsets'],
            'engine_reference': hG.explain(hG.CFG, *args)}


# ---- strictness given to a loader reaches the templates it creates --------------------------------------------
LOADER_PAGE = '<div><p tal:condition="cv">${1 +}</p>ok</div>'
LOADER_MAIN = '<div tal:define="t load: page.pt">${structure: t.render(cv=cv)}</div>'


def via_loader(strict: bool, cv: bool, how: int, given: bool) -> bool:
    """
    pre: 0 <= how < 4
    post: _
    """
    # strict=True / strict=False / not given at all (the default is strict), passed to PageTemplateLoader or to a
    # PageTemplateFile that pulls the page in with ``load:``; the page has an invalid expression under a condition
    import os
    import shutil
    import tempfile
    from chameleon import PageTemplateFile, PageTemplateLoader
    from vlib.notrace import NoTracing
    strict = True if strict else False          # decided under the tracer: concrete from here on
    given = True if given else False
    reached = True if cv else False
    how = [h for h in range(4) if how == h][0]
    with NoTracing():
        is_strict = strict or not given
        kw = {'strict': strict} if given else {}
        d = tempfile.mkdtemp(prefix='verif-c19-')
        try:
            for name, text in (('page.pt', LOADER_PAGE), ('main.pt', LOADER_MAIN), ('page.txt', LOADER_PAGE)):
                with open(os.path.join(d, name), 'w') as f:
                    f.write(text)
            try:
                if how == 0:
                    out = PageTemplateLoader(d, **kw).load('page.pt').render(cv=reached)
                elif how == 1:
                    out = PageTemplateLoader([d], '.pt', **kw)['page'].render(cv=reached)
                elif how == 2:
                    out = PageTemplateFile(os.path.join(d, 'main.pt'), **kw).render(cv=reached)
                else:
                    out = PageTemplateLoader(d, **kw).load('page.txt', 'text').render(cv=reached)
                got = ('ok', out if isinstance(out, str) else out.decode('utf-8'))
            except ExpressionError as exc:
                got = ('invalid', str(exc.token))
            except Exception as exc:
                got = ('exc', type(exc).__name__)
        finally:
            shutil.rmtree(d, True)
        if is_strict or reached or how == 3:
            # (a text template has no conditions: the expression is always reached)
            ok = got == ('invalid', '1 +')
        elif how == 2:
            ok = got == ('ok', '<div><div>ok</div></div>')
        else:
            ok = got == ('ok', '<div>ok</div>')
    return (not ok) if CFG.get('negate') else ok
