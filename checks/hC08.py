"""C08 kernels: RepeatItem position arithmetic, letter and roman numerals on symbolic positions."""
from chameleon import tal
from chameleon import utils as cu

CFG = {}


class FakeIter:
    """list-iterator contract: __length_hint__ = number of items not yet produced"""

    def __init__(self, remaining):
        self.remaining = remaining

    def __length_hint__(self):
        return self.remaining


def _mutate(name):
    if name == 'index_off_by_one':
        def index(self):
            return self.length - self._iterator.__length_hint__()
        tal.RepeatItem.index = cu.descriptorint(index)
    elif name == 'end_wrong':
        def end(self):
            return self.index == self.length
        tal.RepeatItem.end = cu.descriptorint(end)
    elif name == 'roman_table_3999':
        def Roman(self):
            n = self.index + 1
            th = ('', 'M', 'MM', 'MMM')
            hu = ('', 'C', 'CC', 'CCC', 'CD', 'D', 'DC', 'DCC', 'DCCC', 'CM')
            te = ('', 'X', 'XX', 'XXX', 'XL', 'L', 'LX', 'LXX', 'LXXX', 'XC')
            on = ('', 'I', 'II', 'III', 'IV', 'V', 'VI', 'VII', 'VIII', 'IX')
            return th[n // 1000] + hu[n // 100 % 10] + te[n // 10 % 10] + on[n % 10]
        tal.RepeatItem.Roman = cu.descriptorstr(Roman)
    else:
        raise KeyError(name)


def prepare(cfg):
    if cfg.get('mutant'):
        _mutate(cfg['mutant'])
    try:
        from crosshair import core as _core
        # callableint/callablestr are int/str subclasses: constructing them realises.  Model: the
        # wrapper is the value itself (the call-returns-self aspect is checked on concrete values).
        _core._PATCH_REGISTRATIONS[cu.callableint] = lambda v=0: v
        from vlib.chsym import symbolic_str_subclass
        _core._PATCH_REGISTRATIONS[cu.callablestr] = symbolic_str_subclass(cu.callablestr, ('__call__',))[1]
    except Exception:
        pass


def item(length, pos):
    return tal.RepeatItem(FakeIter(length - pos - 1), length)


def _res(ok):
    return (not ok) if CFG.get('negate') else ok


def arith(length: int, pos: int) -> bool:
    """
    pre: 0 <= pos < length
    post: _
    """
    it = item(length, pos)
    ok = (it.index == pos and it.number == pos + 1 and
          bool(it.start) == (pos == 0) and bool(it.end) == (pos == length - 1) and
          bool(it.even) == (pos % 2 == 0) and bool(it.odd) == (pos % 2 == 1) and
          it.parity == ('odd' if pos % 2 == 1 else 'even') and it.length == length)
    return _res(ok)


ALPHA = 'abcdefghijklmnopqrstuvwxyz'


def ref_letter_plain(i):
    """positional base 26 with a=0 (zope.tales): ..., y, z, ba, bb"""
    digits = []
    while True:
        digits.append(i % 26)
        i = i // 26
        if i == 0:
            break
    out = ''
    for d in reversed(digits):
        out = out + ALPHA[d]
    return out


def ref_letter_doc(i):
    """bijective base 26 (documentation: a-z, aa-az, ba-bz, ..., za-zz, aaa)"""
    n = i + 1
    out = ''
    while n > 0:
        n -= 1
        out = ALPHA[n % 26] + out
        n = n // 26
    return out


def letter(pos: int, upper: bool) -> bool:
    """
    pre: CFG['lo'] <= pos < CFG['hi']
    post: _
    """
    it = item(pos + 1, pos)
    got = it.Letter if upper else it.letter
    a = ref_letter_plain(pos)
    b = ref_letter_doc(pos)
    if upper:
        a = a.upper()
        b = b.upper()
    return _res(got == a or got == b)


R1 = ('', 'I', 'II', 'III', 'IV', 'V', 'VI', 'VII', 'VIII', 'IX')
R10 = ('', 'X', 'XX', 'XXX', 'XL', 'L', 'LX', 'LXX', 'LXXX', 'XC')
R100 = ('', 'C', 'CC', 'CCC', 'CD', 'D', 'DC', 'DCC', 'DCCC', 'CM')


def ref_roman(n):
    return 'M' * (n // 1000) + R100[n // 100 % 10] + R10[n // 10 % 10] + R1[n % 10]


def roman(d: int, lower: bool) -> bool:
    """
    pre: 0 <= d < 10
    post: _
    """
    # one symbolic decimal digit at position CFG['place'], the other digits from CFG['base']
    place = CFG['place']
    n = CFG['base'] + d * place
    if n < 1:
        return _res(True)
    it = item(n, n - 1)
    got = it.roman if lower else it.Roman
    want = ref_roman(n)
    if lower:
        want = want.lower()
    return _res(got == want)
